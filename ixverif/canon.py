"""Canonical (hashable) forms of live objects, built from vars() so that a new attribute of a later
version of a class automatically becomes part of the key (DESIGN.md 3.3)."""
import re
from collections import deque
from fractions import Fraction

import numpy as np

_ADDR = re.compile(r' at 0x[0-9a-fA-F]+')


def canon(o, depth=0):
    if depth > 10:
        return ('deep', type(o).__name__)
    if o is None or isinstance(o, (bool, int, str, Fraction)):
        return o
    if isinstance(o, float):
        return ('nan',) if o != o else o
    if isinstance(o, (np.floating, np.integer, np.bool_)):
        v = o.item()
        return ('nan',) if v != v else v
    if isinstance(o, np.ndarray):
        return ('nd', o.shape, tuple(canon(v, depth + 1) for v in o.ravel().tolist()))
    if isinstance(o, dict):
        return ('d',) + tuple(sorted(((canon(k, depth + 1), canon(v, depth + 1)) for k, v in o.items()),
                                     key=repr))
    if isinstance(o, (list, tuple, deque)):
        return ('l',) + tuple(canon(v, depth + 1) for v in o)
    if isinstance(o, (set, frozenset)):
        return ('s',) + tuple(sorted((canon(v, depth + 1) for v in o), key=repr))
    if hasattr(o, '__dict__'):
        return ('o', type(o).__name__) + tuple(
            (k, canon(v, depth + 1)) for k, v in sorted(vars(o).items()))
    if callable(o):
        return ('fn', getattr(o, '__name__', type(o).__name__))
    try:                                 # opaque extension objects: their pickled state, if any
        import pickle
        return ('p', type(o).__name__, pickle.dumps(o, protocol=4))
    except Exception:
        return ('r', _ADDR.sub('', repr(o)))
