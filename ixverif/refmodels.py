"""Boring reference models (DESIGN.md 3.5).  Nothing here imports or calls ixai; every statistic is
recomputed from the whole history with the closed form, so no recurrence is shared with the code."""
from fractions import Fraction as F


def mean_stat(values):
    """Uniform mean of all values (Welford mean); 0 for the empty history."""
    if not values:
        return 0
    return sum(values) / len(values)


def var_stat(values):
    if not values:
        return 0
    m = sum(values) / len(values)
    return sum((v - m) * (v - m) for v in values) / len(values)


def es_stat(values, alpha):
    """sum_i alpha (1-alpha)^(n-i) v_i, started at 0."""
    n = len(values)
    tot = 0
    for i, v in enumerate(values, start=1):
        tot = tot + alpha * (1 - alpha) ** (n - i) * v
    return tot


def running(values, dynamic, alpha):
    return es_stat(values, alpha) if dynamic else mean_stat(values)


class MultiRef:
    """Reference of a multi-value running statistic: per key the base statistic of the values supplied
    since the key first appeared, 0 substituted in updates that omit it."""

    def __init__(self, dynamic, alpha):
        self.dynamic, self.alpha = dynamic, alpha
        self.hist = {}          # key -> list of values since first appearance
        self.order = []
        self.n = 0

    def update(self, d):
        self.n += 1
        for k in list(self.hist):
            if k not in d:
                self.hist[k].append(0)
        for k, v in d.items():
            if k not in self.hist:
                self.hist[k] = []
                self.order.append(k)
            self.hist[k].append(v)

    def get(self):
        return {k: running(v, self.dynamic, self.alpha) for k, v in self.hist.items()}

    def normalized(self):
        vals = self.get()
        if len(vals) <= 1:
            return vals
        tot = sum(vals.values())
        if tot == 0:
            return {k: 0 for k in vals}
        return {k: v / tot for k, v in vals.items()}


def mean_prediction(preds):
    """Label-wise mean of prediction dicts, a missing label counting as 0."""
    labels = []
    for p in preds:
        for k in p:
            if k not in labels:
                labels.append(k)
    n = len(preds)
    return {k: sum(p.get(k, 0) for p in preds) / n for k in labels}


def dict_eq(a, b):
    """Equality of two dicts with == on keys and values (np.str_('a') == 'a', 1 == 1.0)."""
    if len(a) != len(b):
        return False
    for k, v in a.items():
        if k not in b or not (b[k] == v):
            return False
    return True
