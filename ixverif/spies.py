"""Spies, deterministic models / losses and the fault injector (DESIGN.md 3.6).

Everything the explainers call back into is supplied by the driver, so the whole interaction is
observable at the public seam.  All values are exact rationals (Fractions) unless a float pass asks
otherwise.
"""
from fractions import Fraction as F


class Injected(ValueError, IndexError, KeyError, ZeroDivisionError, TypeError, AttributeError, RuntimeError,
               AssertionError, OverflowError, FloatingPointError):
    """The fault raised by the injector.  It is an instance of every common built-in exception class at once, so a
    library `except ValueError:` / `except (KeyError, IndexError):` ... around a callback swallows it (and is thereby
    exposed) exactly as it would swallow a user exception of that class."""

    def __str__(self):
        return self.args[0] if self.args else 'injected fault'


class InjectedInterrupt(KeyboardInterrupt):
    """A fault that is not an Exception subclass (Ctrl-C arriving inside a callback, SystemExit from a worker): a caller that
    catches it and resumes the stream must find the estimates untouched as well."""


class InjectedStop(StopIteration):
    """A user callback may also raise StopIteration (e.g. next() on an exhausted stream); iterator plumbing such as
    list(map(...)) or generators silently absorbs it."""


class Injector:
    """Global callback-invocation counter; raises Injected at the armed invocation."""

    exc_class = None         # set per execution: Injected or InjectedStop

    def __init__(self):
        self.count = 0
        self.armed = None      # invocation number (1-based) at which to raise, or None
        self.fired = None
        self.kinds = []

    def begin_call(self, armed=None):
        self.count = 0
        self.armed = armed
        self.fired = None
        self.kinds = []

    def tick(self, kind):
        self.count += 1
        self.kinds.append(kind)
        if self.armed is not None and self.count == self.armed:
            self.armed = None
            self.fired = (self.exc_class or Injected)(f"injected fault at callback invocation {self.count} ({kind})")
            self.fired.kind = kind
            raise self.fired


class EventLog:
    def __init__(self):
        self.events = []

    def add(self, *ev):
        self.events.append(ev)

    def mark(self):
        return len(self.events)

    def since(self, mark):
        return self.events[mark:]


# ------------------------------------------------------------------------------------------ models
def tiny(v):
    """Output conversion: predictions of magnitude 1e-10 (exact rationals) - totals far below any absolute tolerance."""
    return v * F(1, 10 ** 10)


class Model:
    """Deterministic pure model over named features; logs every input it receives.

    kind 'scalar': {'output': polynomial with an interaction}; every feature has a different effect.
    kind 'multi' : labels 'A','B' always, 'C' only when the last feature exceeds a threshold, so the
                   label set depends on the input and grows over a stream.
    `ignored` (index or None): that feature does not influence the output at all.
    `positional` (attribute, default False): the feature values are read by POSITION among the keys of the input (as
        ixai's own SklearnWrapper / TorchWrapper do without feature names) - identical to reading by name as long as
        every input has the canonical key order; an imputed instance must keep the key order of the explained one.
    Every model additionally reads the optional, non-explained context key CTX with default 0 (x.get(CTX, 0)): an
    imputed instance must carry the explained instance's context, never the one of a background row.
    """
    CTX = 'zz_ctx'
    positional = False
    buffer = False           # True: every single-input call returns THE SAME dict object, overwritten in place (a model with a
    #                          pre-allocated output buffer): a prediction the library keeps by reference and reads again
    #                          after a later model call has changed meanwhile
    sparse_ok = False        # True: an absent feature means the value 0 (sparse encoding, collections.defaultdict observations)

    def __init__(self, names, kind='scalar', ignored=None, log=None, inj=None, conv=None):
        self.names = list(names)
        self.kind = kind
        self.ignored = ignored
        self.log = log if log is not None else EventLog()
        self.inj = inj
        self.conv = conv            # optional output value conversion (float passes)
        self.n_calls = 0

    _memo = {}

    def f(self, x):
        """The pure function (no logging) – also used by the reference models. Memoised: it is pure."""
        ctx = x.get(self.CTX, 0) if hasattr(x, 'get') else 0
        if self.positional:
            vals = tuple(v for k, v in x.items() if k != self.CTX)[:len(self.names)]
        elif self.sparse_ok:
            vals = tuple(x[n] if n in x else F(0) for n in self.names)
        else:
            vals = tuple(x[n] for n in self.names)
        key = (self.kind, self.ignored, self.conv, vals, ctx)
        out = Model._memo.get(key)
        if out is None:
            out = Model._memo[key] = self._f(vals, ctx)
        return dict(out)

    def _f(self, vals, ctx=0):
        v = [F(0) if j == self.ignored else vals[j] for j in range(len(self.names))]
        d = len(v)
        coef = [F(3), F(-2), F(5, 2), F(7, 3)]
        lin = sum(coef[j % 4] * v[j] for j in range(d))
        inter = v[0] * v[1] * F(1, 2) if d >= 2 else v[0] * v[0] * F(1, 2)
        quad = v[d - 1] * v[d - 1] * F(1, 3)
        if self.kind == 'scalar':
            out = {'output': lin + inter + quad + F(1, 4)}
        elif self.kind == 'swap':
            # the label set SWAPS with the input: 'A' always, then either 'B' or 'C' (never both)
            out = {'A': lin + F(1, 2)}
            if v[d - 1] > F(1):
                out['C'] = quad + v[0]
            else:
                out['B'] = inter - quad + F(2)
        else:
            out = {'A': lin + F(1, 2), 'B': inter - quad + F(2)}
            if v[d - 1] > F(1):     # the label set depends on the input (last feature: it is the one
                out['C'] = quad + v[0]  # imputed longest under the default feature order)
        if ctx:
            out = {k: val + ctx * F(1, 8) for k, val in out.items()}
        if self.conv is not None:
            out = {k: self.conv(val) for k, val in out.items()}
        return out

    def _complete(self, x):
        missing = [n for n in self.names if n not in x]
        if missing and not self.sparse_ok:
            from .choice import CURRENT_PID, Violation
            raise Violation(f"{CURRENT_PID[0]}/model-input-incomplete",
                            f"the model was evaluated on {dict(x)}, which lacks the feature(s) {missing} (every model "
                            f"input must carry all features: the instance's own values or background values)", {})

    def __call__(self, x):
        if isinstance(x, dict):
            if self.inj is not None:
                self.inj.tick('model')
            self.n_calls += 1
            self._complete(x)
            out = self.f(x)
            self.log.add('model', dict(x), dict(out))
            if self.buffer:
                buf = self.__dict__.setdefault('_outbuf', {})
                buf.clear()
                buf.update(out)
                return buf
            return out
        if self.inj is not None:
            self.inj.tick('model')
        x = list(x)
        self.log.add('model-batch', [dict(xi) for xi in x])
        outs = []
        for xi in x:
            self.n_calls += 1
            out = self.f(xi)
            self.log.add('model', dict(xi), dict(out))
            outs.append(out)
        return outs


LABELS = ('A', 'B', 'C')


def _k0(kv):
    return str(kv[0])


class Loss:
    """Exact rational loss loss(y_true, y_pred_dict); positional-only on purpose.

    kind 'sq'  : squared error (scalar) / weighted squared error against the one-hot target (multi)
    kind 'poly': sign-mixed cubic - loss values behave like arbitrary reals (no accidental symmetry)
    """

    def __init__(self, model_kind='scalar', kind='sq', log=None, inj=None, conv=None):
        self.model_kind = model_kind
        self.kind = kind
        self.log = log if log is not None else EventLog()
        self.inj = inj
        self.conv = conv

    _memo = {}

    def f(self, y, p):
        key = (self.model_kind, self.kind, y, tuple(sorted(p.items(), key=_k0)))
        try:
            out = Loss._memo.get(key)
        except TypeError:
            return self._f(y, p)
        if out is None:
            out = Loss._memo[key] = self._f(y, p)
        return out

    def _f(self, y, p):
        if self.model_kind == 'scalar':
            v = p.get('output', 0)
            if self.kind == 'sq':
                return (y - v) * (y - v)
            return (y - v) * (y - v) * (y - v) * F(1, 8) + v * F(3, 4) - y * F(1, 3)
        w = {'A': F(1), 'B': F(2), 'C': F(1, 2)}
        tot = 0
        for lab in LABELS:
            t = 1 if y == lab else 0
            e = p.get(lab, 0) - t
            if self.kind == 'sq':
                tot = tot + w[lab] * e * e
            else:
                tot = tot + w[lab] * e * e * e + e * F(1, 5)
        extra = [k for k in p if k not in LABELS]
        if extra:
            raise AssertionError(f"unexpected labels {extra}")
        return tot

    def __call__(self, a, b, /):
        if self.inj is not None:
            self.inj.tick('loss')
        val = self.f(a, b)
        if self.conv is not None:
            val = self.conv(val)
        self.log.add('loss', a, dict(b), val)
        return val


# ------------------------------------------------------------------------------------------ imputer spy
def make_imputer_spy(inner, log, inj=None):
    """A user-supplied imputer (BaseImputer subclass) that wraps a real imputer and records the
    arguments at call time (the library passes a live set that it mutates afterwards)."""
    from ixai.imputer import BaseImputer

    class ImputerSpy(BaseImputer):
        def __init__(self):
            super().__init__(model_function=inner.model_function)
            self.inner = inner

        def __len__(self):
            # a user imputer may define __len__ (e.g. the number of background rows it can draw from) and be "falsy" when
            # the explainer is built: the library must test `is None`, never truthiness
            return 0

        def __getattr__(self, name):
            # transparent for everything else (storage_object, sampling_strategy, values, ...): library code that looks at
            # the imputer's public attributes sees those of the wrapped imputer
            inner_ = self.__dict__.get('inner')
            if inner_ is None or name.startswith('__'):
                raise AttributeError(name)
            return getattr(inner_, name)

        def impute(self, feature_subset, x_i, n_samples=None):
            if inj is not None:
                inj.tick('imputer')
            subset = frozenset(feature_subset)
            x_copy = dict(x_i)
            mark = log.mark()
            if n_samples is None:
                preds = self.inner.impute(feature_subset, x_i)
            else:
                preds = self.inner.impute(feature_subset, x_i, n_samples)
            inputs = [dict(e[1]) for e in log.since(mark) if e[0] == 'model']
            log.add('impute', subset, x_copy, n_samples, [dict(p) for p in preds], inputs)
            if inj is not None:
                inj.tick('imputer-return')
            return preds
    return ImputerSpy()


# ------------------------------------------------------------------------------------------ storage spy
_SPY_CLASSES = {}


def make_storage_spy(cls, log, inj, *args, **kwargs):
    """Instance of a dynamically created subclass of the real storage class (isinstance checks in the
    library still hold) whose update / get_data log, tick the injector and delegate."""
    if cls not in _SPY_CLASSES:
        class StorageSpy(cls):
            _spy_log = None
            _spy_inj = None

            def update(self, x, y=None):
                if self._spy_inj is not None:
                    self._spy_inj.tick('storage.update')
                self._spy_log.add('storage.update', x, y)
                return super().update(x, y)

            def get_data(self):
                if self._spy_inj is not None:
                    self._spy_inj.tick('storage.get_data')
                self._spy_log.add('storage.get_data')
                return super().get_data()
        StorageSpy.__name__ = cls.__name__ + 'Spy'
        _SPY_CLASSES[cls] = StorageSpy
    obj = _SPY_CLASSES[cls].__new__(_SPY_CLASSES[cls])
    obj._spy_log = log
    obj._spy_inj = None          # constructor must not tick
    obj.__init__(*args, **kwargs)
    obj._spy_inj = inj
    return obj

