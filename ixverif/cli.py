"""./check <ID> [--tier quick|thorough] [--replay FILE] – single entry point of all checks."""
import argparse
import importlib
import json
import os
import sys
import traceback


def main(argv=None):
    ap = argparse.ArgumentParser()
    ap.add_argument('pid')
    ap.add_argument('--tier', default=os.environ.get('VERIF_TIER') or 'quick', choices=['quick', 'thorough'])
    ap.add_argument('--replay')
    args = ap.parse_args(argv)
    try:
        seed = int(os.environ.get('VERIF_SEED', '0') or 0)
    except ValueError:
        seed = 0
    from . import scripted
    scripted.install()          # before ixai is imported
    import warnings
    warnings.filterwarnings('ignore')
    pid = args.pid.upper()
    import ixai  # noqa: F401  (imported once in the parent; workers are forked)
    try:
        if pid == 'SELFTEST':
            from . import selftest
            return selftest.main()
        from . import choice as _choice
        _choice.CURRENT_PID[0] = pid
        mod = importlib.import_module(f"checks.{pid.lower()}")
        from .report import Report
        if args.replay:
            with open(args.replay) as f:
                data = json.load(f)
            return mod.replay(data)
        rep = Report(pid, args.tier, seed, mod.LEVEL)
        return mod.main(rep)
    except SystemExit:
        raise
    except BaseException:
        print("HARNESS-ERROR:", traceback.format_exc())
        return 2


if __name__ == '__main__':
    sys.exit(main())
