"""Scripted random generators (DESIGN.md 3.1).

`install()` replaces the module attributes of `random` and `numpy.random` by dispatchers.  It must
be called before `ixai` is imported so that even a `from random import randrange` inside the
library binds the dispatcher.  While no run is active every dispatcher forwards to the genuine
function.  While a run is active (see `choice.Run`) every draw becomes a choice point of the
explorer: the run decides which alternative is taken and records its weight.
"""
import itertools
import math
import random as _random
from fractions import Fraction

import numpy as _np

ORIG = {}
_ACTIVE = None          # the choice.Run in control, or None
_INSTALLED = False
UNSCRIPTED = 0          # draws from primitives that cannot be enumerated (process-wide counter)
_PRIVATE = _random.Random(0)

NORMAL_MENU = (0.0, -1.0, 1.0, 2.5)   # standard-normal menu (reachability only, never a probability claim)


def _emul(exc):
    """Marks an exception that a dispatcher raises to mimic the genuine primitive (e.g. randrange(0)); the explorer
    attributes it to the calling library code, not to the harness."""
    exc._emulated = True
    return exc


def active():
    return _ACTIVE


def set_active(run):
    global _ACTIVE
    _ACTIVE = run


def _perm_from_index(n, idx):
    """idx-th permutation of range(n) in lexicographic order."""
    items = list(range(n))
    out = []
    for k in range(n, 0, -1):
        f = math.factorial(k - 1)
        q, idx = divmod(idx, f)
        out.append(items.pop(q))
    return out


def _choose_perm(run, n, label):
    if n <= 1:
        return list(range(n))
    idx = run.choose(math.factorial(n), label)
    return _perm_from_index(n, idx)


def _u01(run, label):
    values, weights = run.float_policy(label)
    i = run.choose(len(values), label, weights)
    return values[i]


def _norm(run, label):
    i = run.choose(len(NORMAL_MENU), label)
    return NORMAL_MENU[i]


def _ratio_weights(weights):
    tot = sum(weights)
    try:
        return [Fraction(w) / Fraction(tot) for w in weights]
    except (TypeError, ValueError):
        return [float(w) / float(tot) for w in weights]


# ---------------------------------------------------------------- random.*
def _mk_random():
    o = ORIG

    def random():
        r = _ACTIVE
        if r is None:
            return o['random.random']()
        return _u01(r, 'random.random')

    def uniform(a, b):
        r = _ACTIVE
        if r is None:
            return o['random.uniform'](a, b)
        return a + (b - a) * _u01(r, 'random.uniform')

    def randrange(start, stop=None, step=1):
        r = _ACTIVE
        if r is None:
            return o['random.randrange'](start, stop, step)
        rng = range(start) if stop is None else range(start, stop, step)
        if len(rng) == 0:
            raise _emul(ValueError("empty range for randrange()"))
        return rng[r.choose(len(rng), 'random.randrange')]

    def randint(a, b):
        r = _ACTIVE
        if r is None:
            return o['random.randint'](a, b)
        if b < a:
            raise _emul(ValueError("empty range for randint()"))
        return a + r.choose(b - a + 1, 'random.randint')

    def choice(seq):
        r = _ACTIVE
        if r is None:
            return o['random.choice'](seq)
        if len(seq) == 0:
            raise _emul(IndexError('Cannot choose from an empty sequence'))
        return seq[r.choose(len(seq), 'random.choice')]

    def choices(population, weights=None, *, cum_weights=None, k=1):
        r = _ACTIVE
        if r is None:
            return o['random.choices'](population, weights, cum_weights=cum_weights, k=k)
        population = list(population)
        n = len(population)
        if n == 0:
            raise _emul(IndexError('Cannot choose from an empty population'))
        if cum_weights is not None:
            cw = list(cum_weights)
            weights = [cw[0]] + [cw[i] - cw[i - 1] for i in range(1, n)]
        if weights is None:
            w = None
        else:
            weights = list(weights)
            if len(weights) != n:
                raise _emul(ValueError('The number of weights does not match the population'))
            if sum(weights) <= 0:
                raise _emul(ValueError('Total of weights must be greater than zero'))
            w = _ratio_weights(weights)
        return [population[r.choose(n, 'random.choices', w)] for _ in range(k)]

    def shuffle(x):
        r = _ACTIVE
        if r is None:
            return o['random.shuffle'](x)
        perm = _choose_perm(r, len(x), 'random.shuffle')
        x[:] = [x[i] for i in perm]

    def sample(population, k, *, counts=None):
        r = _ACTIVE
        if r is None:
            return o['random.sample'](population, k, counts=counts)
        pool = list(population)
        if counts is not None:
            pool = [p for p, c in zip(pool, counts) for _ in range(c)]
        if not 0 <= k <= len(pool):
            raise _emul(ValueError("Sample larger than population or is negative"))
        out = []
        for _ in range(k):
            out.append(pool.pop(r.choose(len(pool), 'random.sample')))
        return out

    def gauss(mu=0.0, sigma=1.0):
        r = _ACTIVE
        if r is None:
            return o['random.gauss'](mu, sigma)
        return mu + sigma * _norm(r, 'random.gauss')

    def normalvariate(mu=0.0, sigma=1.0):
        r = _ACTIVE
        if r is None:
            return o['random.normalvariate'](mu, sigma)
        return mu + sigma * _norm(r, 'random.normalvariate')

    return dict(random=random, uniform=uniform, randrange=randrange, randint=randint, choice=choice,
                choices=choices, shuffle=shuffle, sample=sample, gauss=gauss,
                normalvariate=normalvariate)


_UNSCRIPTED_RANDOM = ['betavariate', 'expovariate', 'gammavariate', 'lognormvariate', 'paretovariate',
                      'triangular', 'vonmisesvariate', 'weibullvariate', 'getrandbits', 'randbytes',
                      'binomialvariate']


def _mk_reseed(gen, name, orig):
    """random.seed / random.setstate / np.random.seed / np.random.set_state while an execution is explored: the genuine
    generator is not touched (the explorer owns the draws); the run is told that, from here on, the draws of this
    generator are a fixed function of the argument - they are no longer random (Run.reseed)."""
    import sys

    def f(*a, **k):
        r = _ACTIVE
        if r is None:
            return orig(*a, **k)
        fr = sys._getframe(1)
        site = f"{fr.f_code.co_filename.split('/ixai/')[-1]}:{fr.f_lineno}"
        r.reseed(gen, f"{name}({', '.join(map(repr, a))}) at {site}")
        return None
    f.__name__ = name
    return f


def _mk_unscripted(modname, name, orig):
    def f(*a, **k):
        global UNSCRIPTED
        r = _ACTIVE
        if r is None:
            return orig(*a, **k)
        UNSCRIPTED += 1
        r.unscripted += 1
        return getattr(_PRIVATE, name)(*a, **k) if hasattr(_PRIVATE, name) else orig(*a, **k)
    f.__name__ = name
    return f


# ---------------------------------------------------------------- numpy.random.*
def _shape_count(size):
    if size is None:
        return None, 1
    if isinstance(size, (int, _np.integer)):
        size = (int(size),)
    size = tuple(int(s) for s in size)
    n = 1
    for s in size:
        n *= s
    return size, n


def _mk_numpy():
    o = ORIG

    def permutation(x):
        r = _ACTIVE
        if r is None:
            return o['np.permutation'](x)
        if isinstance(x, (int, _np.integer)):
            arr = _np.arange(x)
        else:
            arr = _np.array(x)
        perm = _choose_perm(r, arr.shape[0], 'np.random.permutation')
        return arr[perm]

    def shuffle(x):
        r = _ACTIVE
        if r is None:
            return o['np.shuffle'](x)
        perm = _choose_perm(r, len(x), 'np.random.shuffle')
        if isinstance(x, _np.ndarray):
            x[:] = x[perm]
        else:
            x[:] = [x[i] for i in perm]

    def choice(a, size=None, replace=True, p=None):
        r = _ACTIVE
        if r is None:
            return o['np.choice'](a, size, replace, p)
        arr = _np.arange(a) if isinstance(a, (int, _np.integer)) else _np.asarray(a)
        shape, n = _shape_count(size)
        idxs = list(range(arr.shape[0]))
        probs = None if p is None else list(p)
        out = []
        for _ in range(n):
            w = None if probs is None else _ratio_weights(probs)
            j = r.choose(len(idxs), 'np.random.choice', w)
            out.append(arr[idxs[j]])
            if not replace:
                idxs.pop(j)
                if probs is not None:
                    probs.pop(j)
        if shape is None:
            return out[0]
        return _np.array(out).reshape(shape)

    def randint(low, high=None, size=None, dtype=int):
        r = _ACTIVE
        if r is None:
            return o['np.randint'](low, high, size, dtype)
        if high is None:
            low, high = 0, low
        shape, n = _shape_count(size)
        if high <= low:
            raise _emul(ValueError("low >= high"))
        out = [int(low) + r.choose(int(high) - int(low), 'np.random.randint') for _ in range(n)]
        if shape is None:
            return _np.dtype(dtype).type(out[0]) if dtype is not int else out[0]
        return _np.array(out, dtype=dtype).reshape(shape)

    def _floats(r, size, label):
        shape, n = _shape_count(size)
        out = [_u01(r, label) for _ in range(n)]
        if shape is None:
            return out[0]
        return _np.array(out, dtype=float).reshape(shape)

    def random(size=None):
        r = _ACTIVE
        if r is None:
            return o['np.random'](size)
        return _floats(r, size, 'np.random.random')

    def random_sample(size=None):
        r = _ACTIVE
        if r is None:
            return o['np.random_sample'](size)
        return _floats(r, size, 'np.random.random_sample')

    def rand(*dims):
        r = _ACTIVE
        if r is None:
            return o['np.rand'](*dims)
        return _floats(r, dims if dims else None, 'np.random.rand')

    def _bshape(size, *params):
        if size is not None:
            return _shape_count(size)
        shape = _np.broadcast(*[_np.asarray(p) for p in params]).shape
        n = 1
        for d in shape:
            n *= d
        return (shape if shape != () else None), n

    def uniform(low=0.0, high=1.0, size=None):
        r = _ACTIVE
        if r is None:
            return o['np.uniform'](low, high, size)
        shape, n = _bshape(size, low, high)
        u = [_u01(r, 'np.random.uniform') for _ in range(n)]
        if shape is None:
            return low + (high - low) * u[0]
        return _np.asarray(low) + (_np.asarray(high) - _np.asarray(low)) * _np.array(u, dtype=float).reshape(shape)

    def normal(loc=0.0, scale=1.0, size=None):
        r = _ACTIVE
        if r is None:
            return o['np.normal'](loc, scale, size)
        shape, n = _bshape(size, loc, scale)
        z = [_norm(r, 'np.random.normal') for _ in range(n)]
        if shape is None:
            return float(loc + scale * z[0])
        return _np.asarray(loc, dtype=float) + _np.asarray(scale, dtype=float) * _np.array(z, dtype=float).reshape(shape)

    def randn(*dims):
        r = _ACTIVE
        if r is None:
            return o['np.randn'](*dims)
        return normal(0.0, 1.0, dims if dims else None)

    def standard_normal(size=None):
        r = _ACTIVE
        if r is None:
            return o['np.standard_normal'](size)
        return normal(0.0, 1.0, size)

    return dict(permutation=permutation, shuffle=shuffle, choice=choice, randint=randint,
                random=random, random_sample=random_sample, rand=rand, uniform=uniform,
                normal=normal, randn=randn, standard_normal=standard_normal)


_UNSCRIPTED_NUMPY = ['beta', 'binomial', 'exponential', 'gamma', 'geometric', 'poisson', 'bytes',
                     'multinomial', 'lognormal', 'laplace', 'logistic', 'triangular', 'weibull',
                     'standard_exponential', 'standard_gamma', 'standard_cauchy', 'chisquare',
                     'dirichlet', 'random_integers', 'ranf', 'sample']


def install():
    """Install the dispatchers (idempotent)."""
    global _INSTALLED
    if _INSTALLED:
        return
    for name in ['random', 'uniform', 'randrange', 'randint', 'choice', 'choices', 'shuffle',
                 'sample', 'gauss', 'normalvariate']:
        ORIG['random.' + name] = getattr(_random, name)
    for name in ['permutation', 'shuffle', 'choice', 'randint', 'random', 'random_sample', 'rand',
                 'uniform', 'normal', 'randn', 'standard_normal']:
        ORIG['np.' + name] = getattr(_np.random, name)
    for name, f in _mk_random().items():
        setattr(_random, name, f)
    for name, f in _mk_numpy().items():
        setattr(_np.random, name, f)
    ORIG['random.getstate'] = _random.getstate
    for name in ('seed', 'setstate'):
        ORIG['random.' + name] = getattr(_random, name)
        setattr(_random, name, _mk_reseed('random.', 'random.' + name, getattr(_random, name)))
    for name in ('seed', 'set_state'):
        ORIG['np.' + name] = getattr(_np.random, name)
        setattr(_np.random, name, _mk_reseed('np.random.', 'np.random.' + name, getattr(_np.random, name)))
    for name in _UNSCRIPTED_RANDOM:
        if hasattr(_random, name):
            setattr(_random, name, _mk_unscripted('random', name, getattr(_random, name)))
    for name in _UNSCRIPTED_NUMPY:
        if hasattr(_np.random, name):
            orig = getattr(_np.random, name)
            setattr(_np.random, name, _mk_unscripted('np', name, orig))
    _INSTALLED = True


def generator_state():
    """Fingerprint of both genuine global generators (to prove that no draw escaped)."""
    s = _np.random.get_state()
    return (hash(_random.getstate()), hash((s[0], s[1].tobytes(), s[2], s[3], s[4])))
