"""Engine self-test (MANIFEST.setup_cmd): explorer completeness on known trees, exact weights,
replay determinism, deviation bound semantics, dispatcher pass-through."""
import itertools
import math
import random
from fractions import Fraction

import numpy as np

from . import choice, scripted


def main():
    ok = True

    def expect(cond, msg):
        nonlocal ok
        if not cond:
            ok = False
            print("SELFTEST FAIL:", msg)

    # 1. full enumeration of a known tree: perm(3) x randrange(2) x random.random on a 4-grid
    seen = []

    def drv(run):
        p = tuple(np.random.permutation(['a', 'b', 'c']).tolist())
        r = random.randrange(2)
        u = random.random()
        c = random.choices(['x', 'y'], weights=[1, 3])[0]
        return (p, r, u, c)

    grid = (tuple((j + 0.5) / 4 for j in range(4)), None)
    st = choice.explore(drv, on_leaf=lambda run, res: seen.append((res, run.weight)),
                        float_policy=lambda i: grid, weighted=True)
    expect(st.executions == 6 * 2 * 4 * 2, f"leaf count {st.executions}")
    expect(len({s for s, _ in seen}) == 96, "distinct leaves")
    expect(st.leaf_weight == 1, f"weights sum to {st.leaf_weight}")
    wy = sum(w for s, w in seen if s[3] == 'y')
    expect(wy == Fraction(3, 4), f"choices weight {wy}")
    # 2. deviation bound: number of leaves with <= D non-default answers
    for D in (0, 1, 2):
        st = choice.explore(drv, bound=D, float_policy=lambda i: grid)
        ar = [6, 2, 4, 2]
        want = sum(math.prod(ar[i] - 1 for i in sub) for d in range(D + 1)
                   for sub in itertools.combinations(range(4), d))
        expect(st.executions == want, f"bound {D}: {st.executions} != {want}")
    # 3. replay determinism
    r1, a, _ = choice.execute(drv, (3, 1, 2, 1), lambda i: grid)
    r2, b, _ = choice.execute(drv, (3, 1, 2, 1), lambda i: grid)
    expect(a == b and r1.choices() == r2.choices() == (3, 1, 2, 1), "replay")
    try:
        choice.execute(drv, (7,), lambda i: grid)
        expect(False, "divergence not detected")
    except choice.ReplayDivergence:
        pass
    # 4. pass-through when no run is active, and ownership detection
    random.seed(5)
    a = [random.random(), random.randrange(10), random.randint(1, 6)]
    random.seed(5)
    b = [scripted.ORIG['random.random'](), scripted.ORIG['random.randrange'](10),
         scripted.ORIG['random.randint'](1, 6)]
    expect(a == b, "pass-through")
    run, _, _ = choice.execute(lambda run: scripted.ORIG['random.random'](), ())
    expect(run.unscripted == 1, "escaped draw not detected")
    # 5. frontier partitions the leaves
    roots = choice.frontier(drv, 2, lambda i: grid)
    tot = sum(choice.explore(drv, root=r, float_policy=lambda i: grid).executions for r in roots)
    expect(len(roots) == 12 and tot == 96, f"frontier {len(roots)} {tot}")
    # 5b. a re-seed by the code under exploration: later draws of THAT generator carry no probability (run.world)
    leaves = []

    def drv2(run):
        a = random.randrange(2)
        random.seed(3)
        b = random.randrange(3) if a else None
        c = int(np.random.randint(2))
        return a, b, c
    st = choice.explore(drv2, on_leaf=lambda run, res: leaves.append((run.world, (res, run.weight))), weighted=True)
    expect(st.executions == 2 + 6, f"reseed leaves {st.executions}")
    groups = choice.world_groups(leaves)
    expect(len(groups) == 3 and all(sum(w for _, w in m) == 1 for m in groups.values()),
           f"world groups {[(k, sum(w for _, w in m)) for k, m in groups.items()]}")
    expect(scripted.ORIG['random.getstate']() == scripted.ORIG['random.getstate'](), "getstate")
    # 6. ixai is importable from the repository working tree and binds the dispatchers
    import ixai
    import os
    repo = os.environ.get('IXAI_REPO', '/repo').rstrip('/')
    expect(ixai.__file__.startswith(repo + '/'), f"ixai imported from {ixai.__file__}, expected {repo}")
    import ixai.storage.geometric_reservoir_storage as g
    expect(g.random.random.__module__ == 'ixverif.scripted', "dispatcher not bound in ixai")
    print("selftest", "ok" if ok else "FAILED")
    return 0 if ok else 2
