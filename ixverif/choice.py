"""Stateless choice-tree explorer (DESIGN.md 3.2).

A *driver* is a function `driver(run)` that builds fresh objects of the real implementation and
drives them; every nondeterministic decision – a library random draw (through `scripted`), the next
letter of the stream, a flag, a fault position – is taken by `run.choose(...)`.  `explore` executes
the driver once per leaf of the resulting choice tree (full mode) or once per leaf with at most
`bound` deviation cost (deviation-bounded mode).  Nothing is sampled.
"""
import os
import sys
import time
import traceback
from fractions import Fraction

from . import scripted


class HarnessError(Exception):
    pass


class ReplayDivergence(Exception):
    """The same prefix produced a different choice arity: the harness does not own all nondeterminism."""


class Violation(Exception):
    def __init__(self, key, what, detail=None):
        super().__init__(what)
        self.key = key
        self.what = what
        self.detail = detail or {}


ARITY_CAP = 5000
CURRENT_PID = ['C??']
def library_exception(e, context=''):
    """Violation for an exception that escaped from ixai code (harness exceptions are re-raised)."""
    if isinstance(e, (Violation, HarnessError, ReplayDivergence)):
        raise e
    tb = traceback.extract_tb(e.__traceback__)
    site = next((f"{f.filename.split('/ixai/')[-1]}:{f.lineno}" for f in reversed(tb) if '/ixai/' in f.filename), None)
    if site is None or (tb and ('/ixverif/' in tb[-1].filename or '/checks/' in tb[-1].filename)
                        and not getattr(e, '_emulated', False)):
        raise e
    return Violation(f"{CURRENT_PID[0]}/raised/{type(e).__name__}",
                     f"the library raised {type(e).__name__}: {e} (at ixai/{site}) {context}", {})


REACH_GRID = ((0.5, 0.05, 0.95), None)   # default answers of random.random(): reachability only


class Run:
    """One execution: answers choice i with prefix[i], and with alternative 0 beyond the prefix."""
    __slots__ = ('prefix', 'trace', 'weight', 'unscripted', 'float_policy_fn', 'ndraws', 'notes',
                 'states', 'transitions', 'n_float', 'default_last', 'reseeded', 'world')

    def __init__(self, prefix=(), float_policy=None, default_last=False):
        self.prefix = prefix
        self.default_last = default_last   # base execution answers arity-1 instead of 0 (second pass)
        self.trace = []          # (arity, chosen, cost, label, weights, keep_default)
        self.weight = Fraction(1)
        self.unscripted = 0
        self.float_policy_fn = float_policy
        self.n_float = 0
        self.notes = []
        self.states = None
        self.transitions = 0
        self.reseeded = {}       # generator prefix -> description of the library call that re-seeded it in this execution
        self.world = ()          # answers to draws made AFTER such a re-seed: a fixed function of the seed, not random

    def reseed(self, gen, what):
        """The code under exploration re-seeded a global generator: every later draw from it is determined by the seed.
        Such draws are still enumerated (the sequence the seed produces is unknown to the explorer) but they carry no
        probability: they multiply the leaf weight by 1 and are recorded in run.world, so that a probabilistic oracle
        can (and must) judge the distribution for every fixed answer sequence separately (see world_groups)."""
        self.reseeded.setdefault(gen, what)

    def float_policy(self, label):
        i = self.n_float
        self.n_float += 1
        if self.float_policy_fn is None:
            return REACH_GRID
        return self.float_policy_fn(i)

    def choose(self, arity, label='', weights=None, cost=1, keep_default=False):
        """keep_default: the default answer stays alternative 0 also in the all-last base execution (used for fault
        positions: 'no fault' is the default in both passes)."""
        i = len(self.trace)
        if i < len(self.prefix):
            c = self.prefix[i]
            if c >= arity:
                raise ReplayDivergence(f"choice {i} ({label}): prefix wants {c}, arity {arity}")
        else:
            c = arity - 1 if (self.default_last and cost and not keep_default) else 0
            if weights is not None and weights[c] == 0:
                # default must be a possible alternative
                c = next(j for j, w in enumerate(weights) if w != 0)
        self.trace.append((arity, c, cost, label, weights, keep_default))
        if self.reseeded and label.startswith(tuple(self.reseeded)):
            self.world = self.world + ((label, arity, c),)
            return c
        if weights is None:
            self.weight = self.weight * Fraction(1, arity)
        else:
            self.weight = self.weight * weights[c]
        return c

    # driver-side conveniences -----------------------------------------------------------------
    def pick(self, seq, label='', cost=0):
        """Driver choice among the elements of seq (not a deviation by default)."""
        return seq[self.choose(len(seq), label, None, cost)]

    def choices(self):
        return tuple(t[1] for t in self.trace)


def execute(driver, prefix=(), float_policy=None, check_ownership=True, default_last=False):
    """Run the driver once under the scripted generators. Returns (run, result, violation)."""
    run = Run(tuple(prefix), float_policy, default_last)
    before = scripted.generator_state() if check_ownership else None
    prev = scripted.active()
    scripted.set_active(run)
    result = None
    viol = None
    try:
        result = driver(run)
    except Violation as v:
        viol = v
    except (ReplayDivergence, HarnessError):
        raise
    except Exception as e:
        # an exception escaping from the library on a legal input / history: reported as a violation of the property
        # under test (deterministic and replayable like any other); harness trouble has its own exception types
        tb = traceback.extract_tb(e.__traceback__)
        site = next((f"{f.filename.split('/ixai/')[-1]}:{f.lineno}" for f in reversed(tb) if '/ixai/' in f.filename), None)
        if site is None or (tb and ('/ixverif/' in tb[-1].filename or '/checks/' in tb[-1].filename)
                            and not getattr(e, '_emulated', False)):
            raise           # raised by (or inside) the harness itself: harness trouble, never a verdict
        viol = Violation(f"{CURRENT_PID[0]}/raised/{type(e).__name__}",
                         f"the library raised {type(e).__name__}: {e} (at ixai/{site}) on a legal input; choices "
                         f"{run.choices()[:40]}", {})
    finally:
        scripted.set_active(prev)
    if check_ownership and scripted.generator_state() != before:
        run.unscripted += 1
    return run, result, viol


def world_groups(leaves, cap=None):
    """leaves: iterable of (world, payload).  A deterministic generator is one infinite answer sequence; the executions
    consistent with it are those whose recorded world is a prefix of it.  Returns {maximal world: [payload, ...]} - one
    group per maximal recorded world, containing every leaf whose world is a prefix of it (a leaf without post-re-seed
    draws belongs to every group).  Without any re-seed there is exactly one group, keyed ()."""
    by_world = {}
    for w, payload in leaves:
        by_world.setdefault(w, []).append(payload)
    order = sorted(by_world, key=repr_key)
    maximal = [w for i, w in enumerate(order) if i + 1 == len(order) or order[i + 1][:len(w)] != w]
    if cap is not None and len(maximal) > cap:          # an evenly spread selection (deterministic)
        step = len(maximal) / cap
        maximal = [maximal[int(i * step)] for i in range(cap)]
    out = {}
    for m in maximal:
        members = []
        for ln in range(len(m) + 1):
            members.extend(by_world.get(m[:ln], ()))
        out[m] = members
    return out


def repr_key(world):
    return tuple((lab, ar, c) for lab, ar, c in world)


def safe_copy(obj, kind='deepcopy'):
    """copy.deepcopy(obj) / a pickle round trip of obj, or None when TAKING the copy itself raises: no property promises
    that the library's objects can be copied or pickled, so a scenario that continues on a copy simply does not apply then
    (a copy that can be taken must behave like the object itself - that is what those scenarios check)."""
    import copy
    import pickle
    try:
        return copy.deepcopy(obj) if kind == 'deepcopy' else pickle.loads(pickle.dumps(obj))
    except Exception:
        return None


class Stats:
    def __init__(self):
        self.executions = 0
        self.leaf_weight = Fraction(0)
        self.max_choices = 0
        self.unscripted = 0
        self.violations = []     # (key, what, detail, prefix)
        self.truncated = False

    def merge(self, other):
        self.executions += other.executions
        self.leaf_weight += other.leaf_weight
        self.max_choices = max(self.max_choices, other.max_choices)
        self.unscripted += other.unscripted
        self.violations.extend(other.violations)
        self.truncated = self.truncated or other.truncated


def explore(driver, on_leaf=None, bound=None, root=(), float_policy=None, max_exec=None,
            max_violations=3, check_ownership=False, weighted=False, default_last=False):
    """Depth-first enumeration of the driver's choice tree below `root`.

    bound=None  : full enumeration (every leaf exactly once).
    bound=D     : every execution whose non-default answers have total cost <= D.
    on_leaf(run, result) is called for every violation-free execution.
    Returns Stats.
    """
    st = Stats()
    stack = [tuple(root)]
    seen_keys = set()
    while stack:
        p = stack.pop()
        try:
            run, result, viol = execute(driver, p, float_policy, check_ownership, default_last)
        except ReplayDivergence as div:
            # The same prefix produced a different choice arity. The harness builds fresh objects for every execution, so
            # this means state survives between independently constructed objects. Confirm with two back-to-back base
            # executions: if their sequences of choice points differ, the library keeps hidden shared state (module- or
            # class-level defaults / caches) - reported as a violation; otherwise it is harness trouble.
            shapes = []
            for _ in range(3):
                try:
                    r2, _, _ = execute(driver, (), float_policy, False, default_last)
                    shapes.append(tuple((t[0], t[3]) for t in r2.trace))
                except ReplayDivergence:
                    shapes.append(None)
            if st.violations:
                st.truncated = True     # violations already found in this tree explain the inconsistency: report those
                return st
            if len(set(shapes)) > 1:
                st.violations.append((f"{CURRENT_PID[0]}/hidden-shared-state",
                                      f"independently constructed objects are not independent: repeating the very same "
                                      f"scenario on fresh objects in one process changes the sequence / range of the "
                                      f"library's random draws ({div}); the library keeps state across objects "
                                      f"(module- or class-level default / cache)", {}, tuple(p)))
                st.truncated = True
                return st
            raise
        st.executions += 1
        st.unscripted += run.unscripted
        tr = run.trace
        if len(tr) > st.max_choices:
            st.max_choices = len(tr)
        if weighted:
            st.leaf_weight += run.weight
        if viol is not None:
            if viol.key not in seen_keys:
                seen_keys.add(viol.key)
                st.violations.append((viol.key, viol.what, viol.detail, run.choices()))
            if len(st.violations) >= max_violations:
                st.truncated = True
                return st
        elif on_leaf is not None:
            on_leaf(run, result)
        # children
        dev = 0
        if bound is not None:
            for j in range(min(len(p), len(tr))):      # (a violation may have cut the execution short)
                if p[j] != ((tr[j][0] - 1) if (default_last and tr[j][2] and not tr[j][5]) else 0):
                    dev += tr[j][2]
        base = run.choices()
        for i in range(len(tr) - 1, len(p) - 1, -1):
            arity, c, cost, label, weights, _keep = tr[i]
            if arity <= 1:
                continue
            if bound is not None and dev + cost > bound:
                continue
            head = base[:i]
            if arity > ARITY_CAP:       # not enumerable (e.g. randrange(2**32)): a few representatives only
                st.truncated = True
                for alt in (arity - 1, arity // 2, 1, 0):
                    if alt != c:
                        stack.append(head + (alt,))
                continue
            for alt in range(arity - 1, -1, -1):
                if alt == c:
                    continue
                if weights is not None and weights[alt] == 0:
                    continue
                stack.append(head + (alt,))
        if max_exec is not None and st.executions >= max_exec and stack:
            st.truncated = True
            return st
    return st


def frontier(driver, depth, float_policy=None):
    """All prefixes of length <= depth that are needed to partition the tree: returns a list of root
    prefixes whose subtrees (explored in full mode with root=prefix) partition the set of leaves."""
    roots = []
    stack = [()]
    while stack:
        p = stack.pop()
        run, _, _ = execute(driver, p, float_policy, False)
        tr = run.trace
        if len(tr) <= len(p) or len(p) >= depth:
            roots.append(p)
            continue
        # expand the choice at position len(p)
        arity, c, cost, label, weights, _keep = tr[len(p)]
        for alt in range(arity):
            if weights is not None and weights[alt] == 0:
                continue
            stack.append(p + (alt,))
    return roots


# ------------------------------------------------------------------------------------- parallelism
def n_jobs():
    try:
        return max(1, int(os.environ.get('VERIF_JOBS', '') or os.cpu_count() or 1))
    except ValueError:
        return 1


_FUNC = None
_TASKS = None


def _call(i):
    try:
        return ('ok', _FUNC(_TASKS[i]))
    except ReplayDivergence as e:
        return ('div', f"task {i}: {e}")
    except BaseException as e:  # harness trouble inside a worker
        return ('err', f"{type(e).__name__}: {e}\n{traceback.format_exc()}")


def pmap(func, tasks, chunksize=1):
    """Ordered parallel map over tasks with fork workers (ixai already imported in the parent).
    func and tasks are inherited through fork, so closures and unpicklable tasks are fine; only the
    results travel through a pipe."""
    global _FUNC, _TASKS
    tasks = list(tasks)
    jobs = min(n_jobs(), max(1, len(tasks)))
    _FUNC, _TASKS = func, tasks
    try:
        if jobs <= 1:
            out = [_call(i) for i in range(len(tasks))]
        else:
            import multiprocessing as mp
            ctx = mp.get_context('fork')
            with ctx.Pool(jobs) as pool:
                out = pool.map(_call, range(len(tasks)), chunksize)
    finally:
        _FUNC, _TASKS = None, None
    res, divs = [], []
    for kind, val in out:
        if kind == 'err':
            raise HarnessError("worker failed:\n" + val)
        if kind == 'div':
            divs.append(val)
        else:
            res.append(val)
    if divs:
        # A replay divergence in some task: executions are not independent of each other. If other tasks of this very run
        # found violations, hidden state shared between library objects is the consequence of those defects (they are what
        # gets reported); without any violation it is harness trouble.
        if any(isinstance(r, dict) and r.get('violations') for r in res):
            print(f"note: {len(divs)} task(s) dropped after a replay divergence (library objects share state across "
                  f"executions); first: {divs[0]}")
        else:
            raise HarnessError("replay divergence without any violation:\n" + "\n".join(divs[:3]))
    return res


