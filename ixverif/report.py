"""Evidence files, violation artefacts and known findings (DESIGN.md 3.7)."""
import hashlib
import json
import os
import subprocess
import sys
import time
from fractions import Fraction

ROOT = os.path.dirname(os.path.dirname(os.path.abspath(__file__)))
EVIDENCE_DIR = os.environ.get('VERIF_EVIDENCE_DIR') or os.path.join(ROOT, 'evidence')
REPLAY_DIR = os.path.join(ROOT, 'replays') if not os.environ.get('VERIF_EVIDENCE_DIR') else \
    os.path.join(os.environ['VERIF_EVIDENCE_DIR'], 'replays')
KNOWN_FILE = os.path.join(ROOT, 'known_findings.json')
SCHEMA_FILE = os.path.join(ROOT, 'schemas', 'EVIDENCE.schema.json')


def jsonable(o, depth=0):
    """Loss-free-ish JSON image of harness values (Fractions as 'p/q' strings)."""
    import numpy as np
    if depth > 12:
        return repr(o)
    if o is None or isinstance(o, (bool, int, str)):
        return o
    if isinstance(o, float):
        if o != o or o in (float('inf'), float('-inf')):
            return repr(o)
        return o
    if isinstance(o, Fraction):
        return str(o)
    if isinstance(o, (np.bool_,)):
        return bool(o)
    if isinstance(o, np.integer):
        return int(o)
    if isinstance(o, np.floating):
        return jsonable(float(o))
    if isinstance(o, np.ndarray):
        return jsonable(o.tolist(), depth + 1)
    if isinstance(o, dict):
        return {str(k) if not isinstance(k, str) else k: jsonable(v, depth + 1) for k, v in o.items()}
    if isinstance(o, (list, tuple)):
        return [jsonable(v, depth + 1) for v in o]
    if isinstance(o, (set, frozenset)):
        return sorted((jsonable(v, depth + 1) for v in o), key=repr)
    return repr(o)


def load_known():
    try:
        with open(KNOWN_FILE) as f:
            data = json.load(f)
    except FileNotFoundError:
        return []
    return data.get('findings', [])


class Report:
    def __init__(self, pid, tier, seed, level):
        self.pid = pid
        self.tier = tier
        self.seed = seed
        self.level = level
        self.t0 = time.time()
        self.counts = {'evaluations': 0, 'states': 0, 'transitions': 0,
                       'traces_validated_against_impl': 0}
        self.samples = []
        self.violations = {}      # key -> (what, replay)
        self.extra = {}
        self.assumptions = []
        self.inconclusive = []
        self.unscripted = 0
        self.exhaustive = True
        self.nontrivial = set()

    # ------------------------------------------------------------------ accumulation
    def add(self, **kw):
        for k, v in kw.items():
            self.counts[k] = self.counts.get(k, 0) + v

    def sample(self, obj, limit=6):
        if len(self.samples) < limit:
            self.samples.append(jsonable(obj))

    def violation(self, key, what, replay=None):
        if key not in self.violations:
            self.violations[key] = (what, replay or {})

    def note(self, **kw):
        self.extra.update(kw)

    def assume(self, *texts):
        for t in texts:
            if t not in self.assumptions:
                self.assumptions.append(t)

    def mark_nontrivial(self, items):
        self.nontrivial.update(items)

    # ------------------------------------------------------------------ finishing
    def finish(self, rule, explanation=None, distinct_nontrivial=None):
        known = {(k['property'], k['key']): k for k in load_known() if k.get('status') == 'known'}
        n_viol = 0
        n_known = 0
        os.makedirs(EVIDENCE_DIR, exist_ok=True)
        for key, (what, replay) in sorted(self.violations.items()):
            if (self.pid, key) in known:
                n_known += 1
                print(f"KNOWN-FINDING: property={self.pid} {key}: {known[(self.pid, key)].get('what', what)}")
                continue
            n_viol += 1
            os.makedirs(REPLAY_DIR, exist_ok=True)
            h = hashlib.sha1((self.pid + key).encode()).hexdigest()[:10]
            path = os.path.join(REPLAY_DIR, f"{self.pid}-{h}.json")
            with open(path, 'w') as f:
                json.dump(jsonable({'property': self.pid, 'key': key, 'what': what, 'tier': self.tier,
                                    'seed': self.seed, 'replay': replay}), f, indent=1)
            print(f"VIOLATION property={self.pid} replay={path}")
            print(f"  key={key}\n  {what}")
        if distinct_nontrivial is None:
            distinct_nontrivial = len(self.nontrivial)
        cov = dict(self.counts)
        if n_viol or n_known:      # a run cut short by violations may have counted nothing
            for k in ('states', 'transitions', 'evaluations'):
                cov[k] = max(1, cov.get(k, 0))
        cov['distinct_nontrivial'] = int(distinct_nontrivial)
        cov['rule'] = rule
        cov['samples'] = self.samples or [{'note': 'no sample recorded (run cut short by violations)'}]
        cov['exhaustive'] = bool(self.exhaustive and not self.unscripted)
        cov['unscripted_draws'] = self.unscripted
        if explanation:
            cov['explanation'] = explanation
        if self.inconclusive:
            cov['inconclusive'] = self.inconclusive
        cov.update(jsonable(self.extra))
        ev = {
            'property_id': self.pid, 'tier': self.tier, 'seed': self.seed, 'level': self.level,
            'coverage': cov, 'assumptions': self.assumptions,
            'wall_s': round(time.time() - self.t0, 3), 'violations': n_viol,
            'known_findings': n_known,
        }
        path = os.path.join(EVIDENCE_DIR, f"{self.pid}.json")
        with open(path, 'w') as f:
            json.dump(ev, f, indent=1)
        err = validate_evidence(path)
        if err:
            print(f"HARNESS-ERROR: evidence file does not validate: {err}")
            return 2
        for msg in self.inconclusive:
            print(f"INCONCLUSIVE: {msg}")
        print(f"{self.pid} {self.tier}: executions={cov.get('evaluations')} states={cov.get('states')} "
              f"transitions={cov.get('transitions')} distinct_nontrivial={cov['distinct_nontrivial']} "
              f"exhaustive={cov['exhaustive']} violations={n_viol} known={n_known} "
              f"wall={ev['wall_s']}s")
        return 1 if n_viol else 0


_VALIDATOR = r'''
import json, sys
import jsonschema
schema = json.load(open(sys.argv[1])); doc = json.load(open(sys.argv[2]))
try:
    jsonschema.Draft202012Validator(schema).validate(doc)
except jsonschema.ValidationError as e:
    print(str(e.message)[:400]); sys.exit(3)
'''


def validate_evidence(path):
    """Validate with jsonschema from the tooling venv; fall back to a structural check."""
    schema = SCHEMA_FILE if os.path.exists(SCHEMA_FILE) else '/root/.vp/EVIDENCE.schema.json'
    try:
        p = subprocess.run(['python3-vt', '-c', _VALIDATOR, schema, path], capture_output=True,
                           text=True, timeout=60)
        if p.returncode == 3:
            return p.stdout.strip()
        if p.returncode == 0:
            return None
    except (OSError, subprocess.TimeoutExpired):
        pass
    # structural fallback
    with open(path) as f:
        doc = json.load(f)
    for k in ('property_id', 'tier', 'seed', 'level', 'coverage', 'wall_s'):
        if k not in doc:
            return f"missing {k}"
    cov = doc['coverage']
    if doc['level'] == 'model_checking':
        ok = all(k in cov for k in ('states', 'transitions', 'traces_validated_against_impl', 'samples'))
        if not ok or cov['states'] < 1 or cov['transitions'] < 1 or not cov['samples']:
            return "model_checking coverage keys missing"
    else:
        if cov.get('evaluations', 0) < 1 or cov.get('distinct_nontrivial', 0) < 2 or not cov.get('samples'):
            return "generic coverage keys missing"
    return None
