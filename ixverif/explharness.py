"""Common driver for the incremental explainers (DESIGN.md section 4, 'common driver vocabulary').

A Harness builds fresh real objects (explainer, storage, imputer) around the spies for one
configuration and executes explain_one calls; all callbacks are logged in one EventLog in call order.
"""
from fractions import Fraction as F

from .spies import EventLog, Injector, Loss, Model, make_imputer_spy, make_storage_spy

NAME_SETS = {
    'str': ['a', 'b', 'c'],
    'int': [3, 0, 2],                  # unsorted, and 0 is a falsy name
    'float': [0.5, 0.0, 1.5],          # 0.0 likewise
    'mixed': ['a', 1, 2.5],
    'str+int': ['', 1, 'c'],            # '' is a (falsy) string name
    'str+float': ['a', 0.5, 'c'],
    'int+float': [1, 0.5, 2],
}


def names_of(kind, d):
    return list(NAME_SETS[kind][:d])


def alphabet(names, model_kind, size=3):
    """`size` observations with pairwise distinct rational values in every feature and distinct y."""
    vals = [
        [F(1, 2), F(-1), F(3)],
        [F(2), F(4, 3), F(-2)],
        [F(-3, 2), F(4), F(1, 4)],
        [F(5), F(-1, 2), F(2, 3)],
    ]
    ys_scalar = [F(1), F(-2), F(7, 2), F(0)]
    ys_multi = ['A', 'B', 'C', 'A']
    out = []
    for i in range(size):
        x = {n: vals[i][j] for j, n in enumerate(names)}
        y = ys_scalar[i] if model_kind == 'scalar' else ys_multi[i]
        out.append((x, y))
    return out


def storage_class(kind):
    import ixai.storage as s
    return {'Batch': s.BatchStorage, 'Interval': s.IntervalStorage, 'Sequence': s.SequenceStorage,
            'Uniform': s.UniformReservoirStorage, 'Geometric': s.GeometricReservoirStorage}[kind]


def build_storage(kind, log, inj, spy=True):
    if kind == 'libdefault':
        return None
    cls = storage_class(kind)
    kw = {'Batch': dict(store_targets=True), 'Interval': dict(size=2, store_targets=True),
          'Sequence': dict(store_targets=True), 'Uniform': dict(size=2, store_targets=False),
          'Geometric': dict(size=2, store_targets=False, constant_probability=0.5)}[kind]
    if spy:
        return make_storage_spy(cls, log, inj, **kw)
    return cls(**kw)


DEFAULT_VALUES = [F(7, 4), F(-5, 3), F(9, 5)]


def build_imputer(kind, model, storage, names, log, inj, spy=True):
    from ixai.imputer import MarginalImputer, DefaultImputer
    if kind == 'none':
        return None
    if kind == 'joint-own':
        # the imputer samples from a storage object of ITS OWN (filled by the user), not from the explainer's storage
        own = build_storage('Batch', log, inj, spy)
        for i in range(2):
            own.update({n: F(500 + 10 * i + j) for j, n in enumerate(names)}, None)
        inner = MarginalImputer(model, 'joint', own)
    elif kind == 'joint':
        inner = MarginalImputer(model, 'joint', storage)
    elif kind == 'product':
        inner = MarginalImputer(model, 'product', storage)
    elif kind == 'default':
        inner = DefaultImputer(model, values={n: DEFAULT_VALUES[j] for j, n in enumerate(names)})
    else:
        raise ValueError(kind)
    if spy:
        return make_imputer_spy(inner, log, inj)
    return inner


class Harness:
    def __init__(self, cfg, faults=False, spy_imputer=True, spy_storage=True, conv=None):
        from ixai.explainer import IncrementalSage, IncrementalPFI
        self.cfg = cfg
        self.log = EventLog()
        self.inj = Injector() if faults else None
        d = cfg['d']
        self.names = names_of(cfg['names'], d)
        from .spies import tiny
        self.model = Model(self.names, cfg.get('model', 'scalar'), cfg.get('ignored'), self.log, self.inj,
                           conv if not cfg.get('oscale') else tiny)
        if cfg.get('buffer'):
            self.model.buffer = True
        self.loss = Loss(cfg.get('model', 'scalar'), cfg.get('loss', 'sq'), self.log, self.inj, conv)
        self.storage = build_storage(cfg['storage'], self.log, self.inj, spy_storage)
        imp_kind = cfg['imputer']
        if self.storage is None and imp_kind in ('joint', 'product'):
            imp_kind = 'none'
        self.imputer = build_imputer(imp_kind, self.model, self.storage, self.names, self.log, self.inj,
                                     spy_imputer)
        self.alpha = cfg['alpha']
        kw = dict(storage=self.storage, imputer=self.imputer, n_inner_samples=cfg['n_inner'],
                  dynamic_setting=cfg['dynamic'], smoothing_alpha=self.alpha)
        self.names_arg = list(self.names)
        if cfg['expl'] == 'sage':
            self.expl = IncrementalSage(self.model, self.loss, self.names_arg,
                                        loss_bigger_is_better=cfg.get('lbib', False), **kw)
        else:
            self.expl = IncrementalPFI(self.model, self.loss, self.names_arg, **kw)
        self.t = 0
        self.prefilled = False

    def explain(self, x, y, **kw):
        """One explain_one call; returns (return value, events of this call)."""
        mark = self.log.mark()
        ret = self.expl.explain_one(x, y, **kw)
        self.t += 1
        return ret, self.log.since(mark)


def storage_rows(h):
    """Current rows of the explainer's storage (public get_data of the real class, bypassing the spy)."""
    st = getattr(h.expl, '_storage', None) if h.storage is None else h.storage
    if st is None:
        return None        # library-default storage behind a private attribute that does not exist (any more)
    cls = type(st)
    base = cls.__mro__[1] if cls.__name__.endswith('Spy') else cls
    xs, _ = base.get_data(st)
    return list(xs)
