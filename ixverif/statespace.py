"""Explicit-state explorer (DESIGN.md 3.3): breadth-first search where every transition is one real
method call on a deep copy of the real object, with de-duplication on a canonical form and an oracle
(invariant / reference model stepped in lock-step) evaluated on every transition."""
import copy

from . import choice, scripted
from .choice import Violation


class Result:
    def __init__(self):
        self.states = 0
        self.transitions = 0
        self.max_depth = 0
        self.violations = []      # (key, what, history)
        self.truncated = False
        self.outcomes = set()


def bfs(init, letters, step, canon, depth, max_states=200000, default_last=False, float_policy=None):
    """init() -> state object (real objects + reference model inside);
    letters(state) -> iterable of letters enabled in the state;
    step(state, letter) -> observable outcome (hashable) – mutates state, raises Violation on an oracle failure;
    canon(state) -> hashable canonical form."""
    res = Result()
    s0 = init()
    seen = {canon(s0)}
    frontier = [(s0, ())]
    res.states = 1
    for dpt in range(depth):
        nxt = []
        for state, hist in frontier:
            for letter in letters(state):
                s2 = copy.deepcopy(state)
                run = choice.Run((), float_policy, default_last)
                prev = scripted.active()
                scripted.set_active(run)
                try:
                    out = step(s2, letter)
                except (Violation, Exception) as v:
                    if not isinstance(v, Violation):
                        if isinstance(v, (choice.HarnessError, choice.ReplayDivergence)):
                            raise
                        import traceback
                        tb = traceback.extract_tb(v.__traceback__)
                        if not any('/ixai/' in f.filename for f in tb):
                            raise
                        v = Violation(f"{choice.CURRENT_PID[0]}/raised/{type(v).__name__}",
                                      f"the library raised {type(v).__name__}: {v} after history {hist + (letter,)}", {})
                    if not any(v.key == k for k, _, _ in res.violations):
                        res.violations.append((v.key, v.what, hist + (letter,)))
                    if len(res.violations) >= 3:
                        res.truncated = True
                        return res
                    continue
                finally:
                    scripted.set_active(prev)
                res.transitions += 1
                res.outcomes.add(out)
                k = canon(s2)
                if k not in seen:
                    seen.add(k)
                    res.states += 1
                    nxt.append((s2, hist + (letter,)))
                    if res.states >= max_states:
                        res.truncated = True
                        return res
        if nxt:
            res.max_depth = dpt + 1
        frontier = nxt
        if not frontier:
            break
    return res


def replay(init, step, history, default_last=False, float_policy=None):
    """Re-run one history without the search (unit-test style). Returns the Violation or None."""
    state = init()
    for letter in history:
        run = choice.Run((), float_policy, default_last)
        prev = scripted.active()
        scripted.set_active(run)
        try:
            step(state, letter)
        except Violation as v:
            return v
        finally:
            scripted.set_active(prev)
    return None
