#!/venv/bin/python
"""Generates the hand-written mutation patches in /verif/mutants/ (one realistic property-breaking edit
each) from /repo HEAD using a scratch worktree. Each entry: (name, property ids expected to catch it, file, old, new)."""
import os, subprocess, sys, json
M = [
 # --- C01 / C03 (IncrementalSage chain)
 ('sage_drop_carry', ['C01', 'C03'], 'ixai/explainer/sage/incremental.py', "                sample_loss = feature_loss\n", "                pass\n"),
 ('sage_chain_starts_at_model_loss', ['C01', 'C03'], 'ixai/explainer/sage/incremental.py', "            sample_loss = marginal_loss\n", "            sample_loss = model_loss\n"),
 ('sage_marginal_tracker_other_value', ['C01', 'C03'], 'ixai/explainer/sage/incremental.py', "self._marginal_loss_tracker.update(marginal_loss)", "self._marginal_loss_tracker.update(model_loss)"),
 ('sage_direction_only_marginal', ['C01', 'C03'], 'ixai/explainer/sage/incremental.py', "return self._model_loss_tracker.get() + self._loss_direction", "return self._model_loss_tracker.get()"),
 ('sage_credit_wrong_feature', ['C03'], 'ixai/explainer/sage/incremental.py', "                marginal_contributions[feature] = marginal_contribution\n", "                marginal_contributions[permutation_chain[0]] = marginal_contributions.get(permutation_chain[0], 0) + marginal_contribution\n                marginal_contributions.setdefault(feature, 0)\n"),
 ('sage_variance_pre_update', ['C03'], 'ixai/explainer/sage/incremental.py', "            self._importance_trackers.update(marginal_contributions)\n            variances = {\n                feature: (marginal_contributions[feature] - self.importance_values[feature])**2\n                for feature in self.feature_names\n            }\n", "            variances = {\n                feature: (marginal_contributions[feature] - self.importance_values.get(feature, 0))**2\n                for feature in self.feature_names\n            }\n            self._importance_trackers.update(marginal_contributions)\n"),
 ('sage_mean_of_losses', ['C03'], 'ixai/explainer/sage/incremental.py', "                y = _get_mean_model_output(predictions)\n                feature_loss = self._loss_function(y_i, y)\n", "                feature_loss = sum(self._loss_function(y_i, p) for p in predictions) / len(predictions)\n"),
 ('sage_marginal_pred_unnormalised', ['C03'], 'ixai/explainer/sage/incremental.py', "marginal_prediction = marginal_prediction_tracker.get_normalized()", "marginal_prediction = marginal_prediction_tracker.get()"),
 # --- C02 (PFI)
 ('pfi_sign_flip', ['C02'], 'ixai/explainer/pfi.py', "pfi[feature] = avg_loss - original_loss", "pfi[feature] = original_loss - avg_loss"),
 ('pfi_median', ['C02'], 'ixai/explainer/pfi.py', "avg_loss = np.mean(losses)", "avg_loss = sorted(losses)[len(losses) // 2]"),
 ('pfi_first_sample_guard', ['C02', 'C15'], 'ixai/explainer/pfi.py', "        if self.seen_samples >= 1:\n            if n_inner_samples is None:", "        if self.seen_samples >= 1 and len(self._storage) >= 2:\n            if n_inner_samples is None:"),
 ('es_alpha_swapped', ['C02', 'C03', 'C10'], 'ixai/utils/tracker/exponential_smoothing.py', "self.tracked_value = (1 - self.alpha) * self.tracked_value + self.alpha * value_i", "self.tracked_value = self.alpha * self.tracked_value + (1 - self.alpha) * value_i"),
 # --- storages
 ('geo_randrange_size_minus_1', ['C09'], 'ixai/storage/geometric_reservoir_storage.py', "rand_idx = random.randrange(self.size)", "rand_idx = random.randrange(max(self.size - 1, 1))"),
 ('geo_inverted_accept', ['C09'], 'ixai/storage/geometric_reservoir_storage.py', "if random_float <= self.constant_probability:", "if random_float >= 1 - self.constant_probability * self.constant_probability * self.size:"),
 ('interval_popleft_x_only', ['C07'], 'ixai/storage/interval_storage.py', "                self._storage_y.popleft()\n", ""),
 ('uniform_fill_off_by_one', ['C07', 'C08'], 'ixai/storage/uniform_reservoir_storage.py', "if self.stored_samples <= self.size:", "if self.stored_samples <= self.size + 1 and len(self._storage_x) <= self.size:"),
 # --- imputer
 ('marginal_randrange_minus_1', ['C04'], 'ixai/imputer/marginal_imputer.py', "        rand_idx = random.randrange(len(features))\n        sampled_instance", "        rand_idx = random.randrange(max(len(features) - 1, 1))\n        sampled_instance"),
 ('marginal_product_shared_row', ['C04'], 'ixai/imputer/marginal_imputer.py', "        for feature_name in feature_subset:\n            rand_idx = random.randrange(len(features))\n", "        rand_idx = random.randrange(len(features))\n        for feature_name in feature_subset:\n"),
 # --- trackers / wrappers / misc (second batch)
 ('sliding_ring_reset', ['C11'], 'ixai/utils/tracker/sliding_window.py', "        if self.window_k >= self.k:\n            self.window_k = 0\n        self.sliding_window[self.window_k] = value_i\n        self.window_k += 1\n", "        if self.window_k < self.k:\n            self.sliding_window[self.window_k] = value_i\n            self.window_k += 1\n        else:\n            self.window_k = 0\n            self.sliding_window[self.window_k] = value_i\n"),
 ('river_no_revert_for_dict_metrics', ['C13'], 'ixai/utils/wrappers/river.py', "        self._river_metric.revert(y_true=y_true, y_pred=y_prediction)\n", "        if not self._dict_input_metric:\n            self._river_metric.revert(y_true=y_true, y_pred=y_prediction)\n"),
 ('river_probe_not_reverted', ['C13'], 'ixai/utils/validators/loss.py', "        _ = river_metric.update(y_true=0, y_pred=0)\n        _ = river_metric.revert(y_true=0, y_pred=0)\n", "        _ = river_metric.update(y_true=0, y_pred=0)\n"),
 ('wrapper_sorted_keys_without_names', ['C14'], 'ixai/utils/wrappers/base.py', "        return np.asarray(list(x_dict.values())).reshape(1, -1)", "        return np.asarray([x_dict[k] for k in sorted(x_dict, key=str)]).reshape(1, -1)"),
 ('river_wrapper_shared_labels', ['C14'], 'ixai/utils/wrappers/river.py', "        super().__init__(prediction_function, feature_names=None)\n        self._seen_labels = set()\n", "        super().__init__(prediction_function, feature_names=None)\n        self._seen_labels = RiverWrapper._ALL_LABELS\n\n    _ALL_LABELS = set()\n"),
 ('normalize_delta_abs_min', ['C16'], 'ixai/explainer/base.py', "factor = max(importance_values_list) - min(importance_values_list)", "factor = max(importance_values_list) - abs(min(importance_values_list))"),
 ('confidence_bound_delta_not_sqrt', ['C16'], 'ixai/explainer/base.py', "(1 / math.sqrt(delta)) * math.sqrt(self.variances[feature_name])", "(1 / delta) * math.sqrt(self.variances[feature_name])"),
 ('sage_public_marginal_prediction_early', ['C17'], 'ixai/explainer/sage/incremental.py', "            marginal_prediction = marginal_prediction_tracker.get_normalized()\n", "            marginal_prediction = marginal_prediction_tracker.get_normalized()\n            self.marginal_prediction = marginal_prediction\n"),
 ('pfi_storage_after_commit', ['C17'], 'ixai/explainer/pfi.py', "        if update_storage:\n            self._storage.update(x_i, y_i)\n        if pfi is not None:  # commit only after every callback (incl. the storage) has returned\n            self._importance_trackers.update(pfi)\n            variances = {feature: (pfi[feature] - self.importance_values[feature]) ** 2\n                         for feature in self.feature_names}\n            self._variance_trackers.update(variances)\n", "        if pfi is not None:\n            self._importance_trackers.update(pfi)\n            variances = {feature: (pfi[feature] - self.importance_values[feature]) ** 2\n                         for feature in self.feature_names}\n            self._variance_trackers.update(variances)\n        if update_storage:\n            self._storage.update(x_i, y_i)\n"),
 ('marginal_imputer_private_rng', ['C18'], 'ixai/imputer/marginal_imputer.py', "        rand_idx = random.randrange(len(features))\n        sampled_instance", "        rand_idx = _RNG.randrange(len(features))\n        sampled_instance"),
 ('tree_imputer_other_features_reservoir', ['C19'], 'ixai/imputer/tree_imputer.py', "        data_reservoir = self.storage_object.data_reservoirs[feature_name]\n", "        data_reservoir = self.storage_object.data_reservoirs[self.storage_object.feature_names[0]]\n"),
 ('tree_storage_len_per_feature', ['C19'], 'ixai/storage/tree_storage.py', "                self.performances[feature_name].update(y_i, pred_i)\n        self._seen_samples += 1\n", "                self.performances[feature_name].update(y_i, pred_i)\n                self._seen_samples += 1\n"),
 ('tree_storage_capacity_plus_one', ['C19'], 'ixai/storage/tree_storage.py', "size=self._leaf_reservoir_length, store_targets=False, constant_probability=1.0)", "size=self._leaf_reservoir_length + 1, store_targets=False, constant_probability=1.0)"),
 ('default_imputer_mutates_instance', ['C06'], 'ixai/imputer/default_imputer.py', "        prediction = self.model_function({**x_i, **sampled_values})\n", "        x_i.update(sampled_values)\n        prediction = self.model_function(x_i)\n"),
 ('interval_window_off_by_one', ['C05', 'C07'], 'ixai/storage/interval_storage.py', "        if len(self._storage_x) < self.size:\n", "        if len(self._storage_x) <= self.size and self.size > 1 or len(self._storage_x) < self.size:\n"),
 # --- the library re-seeds the global generator ("for reproducibility"): results stay reproducible, the draws are no longer random
 ('uniform_reseeds_in_update', ['C08'], 'ixai/storage/uniform_reservoir_storage.py', "        self.stored_samples += 1\n        if self.stored_samples <= self.size:", "        self.stored_samples += 1\n        random.seed(self.stored_samples)\n        if self.stored_samples <= self.size:"),
 ('geometric_reseeds_in_update', ['C09'], 'ixai/storage/geometric_reservoir_storage.py', "            random_float = random.random()\n", "            random.seed(len(x))\n            random_float = random.random()\n"),
 ('marginal_imputer_reseeds', ['C04'], 'ixai/imputer/marginal_imputer.py', "    def _sample_marginals(features, feature_subset):\n        rand_idx", "    def _sample_marginals(features, feature_subset):\n        random.seed(len(features))\n        rand_idx"),
 ('pfi_skips_falsy_feature_names', ['C02', 'C15'], 'ixai/explainer/pfi.py', "            for feature in self.feature_names:\n", "            for feature in filter(None, self.feature_names):\n"),
 ('welford_var_sample_variance', ['C10', 'C20'], 'ixai/utils/tracker/welford.py', "return self.sum_squares / max(self.N, 1)", "return self.sum_squares / max(self.N - 1, 1)"),
]
wt = '/tmp/wt/mkmut'
subprocess.run(['git', '-C', '/repo', 'worktree', 'remove', '--force', wt], capture_output=True)
subprocess.check_call(['git', '-C', '/repo', 'worktree', 'add', '--detach', wt, 'HEAD', '-q'])
index = {}
try:
    for name, props, path, old, new in M:
        p = os.path.join(wt, path)
        s = open(p).read()
        if s.count(old) != 1:
            print('SKIP (anchor not unique/found):', name, s.count(old)); continue
        s2 = s.replace(old, new)
        if '_RNG.' in new:
            s2 = s2.replace('import random\n', 'import random\n\n_RNG = random.Random()\n', 1)
        open(p, 'w').write(s2)
        diff = subprocess.check_output(['git', '-C', wt, 'diff'], text=True)
        open(f'/verif/mutants/{name}.diff', 'w').write(diff)
        subprocess.check_call(['git', '-C', wt, 'checkout', '--', '.'])
        index[name] = props
finally:
    subprocess.run(['git', '-C', '/repo', 'worktree', 'remove', '--force', wt])
json.dump(index, open('/verif/mutants/index.json', 'w'), indent=1)
print(len(index), 'mutants written')
