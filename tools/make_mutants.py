#!/venv/bin/python
"""Generates the hand-written mutation patches in /verif/mutants/ (one realistic property-breaking edit
each) from /repo HEAD using a scratch worktree. Each entry: (name, property ids expected to catch it, file, old, new)."""
import os, subprocess, sys, json
M = [
 # --- C01 / C03 (IncrementalSage chain)
 ('sage_drop_carry', ['C01', 'C03'], 'ixai/explainer/sage/incremental.py', "                sample_loss = feature_loss\n", "                pass\n"),
 ('sage_chain_starts_at_model_loss', ['C01', 'C03'], 'ixai/explainer/sage/incremental.py', "            sample_loss = marginal_loss\n", "            sample_loss = model_loss\n"),
 ('sage_marginal_tracker_other_value', ['C01', 'C03'], 'ixai/explainer/sage/incremental.py', "self._marginal_loss_tracker.update(marginal_loss)", "self._marginal_loss_tracker.update(model_loss)"),
 ('sage_direction_only_marginal', ['C01', 'C03'], 'ixai/explainer/sage/incremental.py', "return self._model_loss_tracker.get() + self._loss_direction", "return self._model_loss_tracker.get()"),
 ('sage_credit_wrong_feature', ['C03'], 'ixai/explainer/sage/incremental.py', "                marginal_contributions[feature] = marginal_contribution\n", "                marginal_contributions[permutation_chain[0]] = marginal_contributions.get(permutation_chain[0], 0) + marginal_contribution\n                marginal_contributions.setdefault(feature, 0)\n"),
 ('sage_variance_pre_update', ['C03'], 'ixai/explainer/sage/incremental.py', "            self._importance_trackers.update(marginal_contributions)\n            variances = {\n                feature: (marginal_contributions[feature] - self.importance_values[feature])**2\n                for feature in self.feature_names\n            }\n", "            variances = {\n                feature: (marginal_contributions[feature] - self.importance_values.get(feature, 0))**2\n                for feature in self.feature_names\n            }\n            self._importance_trackers.update(marginal_contributions)\n"),
 ('sage_mean_of_losses', ['C03'], 'ixai/explainer/sage/incremental.py', "                y = _get_mean_model_output(predictions)\n                feature_loss = self._loss_function(y_i, y)\n", "                feature_loss = sum(self._loss_function(y_i, p) for p in predictions) / len(predictions)\n"),
 ('sage_marginal_pred_unnormalised', ['C03'], 'ixai/explainer/sage/incremental.py', "marginal_prediction = marginal_prediction_tracker.get_normalized()", "marginal_prediction = marginal_prediction_tracker.get()"),
 # --- C02 (PFI)
 ('pfi_sign_flip', ['C02'], 'ixai/explainer/pfi.py', "pfi[feature] = avg_loss - original_loss", "pfi[feature] = original_loss - avg_loss"),
 ('pfi_median', ['C02'], 'ixai/explainer/pfi.py', "avg_loss = np.mean(losses)", "avg_loss = sorted(losses)[len(losses) // 2]"),
 ('pfi_first_sample_guard', ['C02', 'C15'], 'ixai/explainer/pfi.py', "        if self.seen_samples >= 1:\n            if n_inner_samples is None:", "        if self.seen_samples >= 1 and len(self._storage) >= 2:\n            if n_inner_samples is None:"),
 ('es_alpha_swapped', ['C02', 'C03', 'C10'], 'ixai/utils/tracker/exponential_smoothing.py', "self.tracked_value = (1 - self.alpha) * self.tracked_value + self.alpha * value_i", "self.tracked_value = self.alpha * self.tracked_value + (1 - self.alpha) * value_i"),
 # --- storages
 ('geo_randrange_size_minus_1', ['C09'], 'ixai/storage/geometric_reservoir_storage.py', "rand_idx = random.randrange(self.size)", "rand_idx = random.randrange(max(self.size - 1, 1))"),
 ('geo_inverted_accept', ['C09'], 'ixai/storage/geometric_reservoir_storage.py', "if random_float <= self.constant_probability:", "if random_float >= 1 - self.constant_probability * self.constant_probability * self.size:"),
 ('interval_popleft_x_only', ['C07'], 'ixai/storage/interval_storage.py', "                self._storage_y.popleft()\n", ""),
 ('uniform_fill_off_by_one', ['C07', 'C08'], 'ixai/storage/uniform_reservoir_storage.py', "if self.stored_samples <= self.size:", "if self.stored_samples <= self.size + 1 and len(self._storage_x) <= self.size:"),
 # --- imputer
 ('marginal_randrange_minus_1', ['C04'], 'ixai/imputer/marginal_imputer.py', "        rand_idx = random.randrange(len(features))\n        sampled_instance", "        rand_idx = random.randrange(max(len(features) - 1, 1))\n        sampled_instance"),
 ('marginal_product_shared_row', ['C04'], 'ixai/imputer/marginal_imputer.py', "        for feature_name in feature_subset:\n            rand_idx = random.randrange(len(features))\n", "        rand_idx = random.randrange(len(features))\n        for feature_name in feature_subset:\n"),
]
wt = '/tmp/wt/mkmut'
subprocess.run(['git', '-C', '/repo', 'worktree', 'remove', '--force', wt], capture_output=True)
subprocess.check_call(['git', '-C', '/repo', 'worktree', 'add', '--detach', wt, 'HEAD', '-q'])
index = {}
try:
    for name, props, path, old, new in M:
        p = os.path.join(wt, path)
        s = open(p).read()
        if s.count(old) != 1:
            print('SKIP (anchor not unique/found):', name, s.count(old)); continue
        open(p, 'w').write(s.replace(old, new))
        diff = subprocess.check_output(['git', '-C', wt, 'diff'], text=True)
        open(f'/verif/mutants/{name}.diff', 'w').write(diff)
        subprocess.check_call(['git', '-C', wt, 'checkout', '--', '.'])
        index[name] = props
finally:
    subprocess.run(['git', '-C', '/repo', 'worktree', 'remove', '--force', wt])
json.dump(index, open('/verif/mutants/index.json', 'w'), indent=1)
print(len(index), 'mutants written')
