#!/venv/bin/python
"""Regenerates MANIFEST.json from the table below (claimed checks) and properties.jsonl."""
import json, os
ROOT = os.path.dirname(os.path.dirname(os.path.abspath(__file__)))
props = [json.loads(l) for l in open(os.path.join(ROOT, 'properties.jsonl'))]

CHECKS = json.load(open(os.path.join(ROOT, 'tools', 'checks_table.json')))

checks, na = [], []
for p in props:
    pid = p['id']
    c = CHECKS.get(pid)
    if not c or not os.path.exists(os.path.join(ROOT, 'checks', pid.lower() + '.py')):
        na.append({'property_id': pid, 'reason': (c or {}).get('na_reason', 'check not built yet (work in progress); model checking applies, see DESIGN.md section 4')})
        continue
    checks.append({
        'property_id': pid,
        'quick_cmd': f'./check {pid} --tier quick',
        'thorough_cmd': f'./check {pid} --tier thorough',
        'evidence_file': f'/verif/evidence/{pid}.json',
        'replay_cmd_template': f'./check {pid} --replay {{path}}',
        'engine': c.get('engine', 'choice-tree explorer'),
        'level_claimed': {'category': c['level'], 'text': c['text'], 'design_ref': f'DESIGN.md section 4, {pid}'},
        'level_note': c['note'],
        'technique': c['technique'],
    })
man = {
    'version': 1,
    'setup_cmd': './check selftest',
    'hooks': {
        'guard': 'IXAI_VERIF',
        'enable': 'no source hooks are needed: checks import ixai from /repo working tree (PYTHONPATH=/repo) after installing scripted dispatchers for random.* / numpy.random.*; nothing is built',
        'baseline_off_cmd': 'cd /repo && /venv/bin/python -m pytest -ra -q -p no:cacheprovider --timeout=900 --continue-on-collection-errors',
        'source_commits': [],
        'add_only': True,
    },
    'engines': [
        {'name': 'choice-tree explorer', 'path': 'ixverif/choice.py + ixverif/scripted.py',
         'serves_properties': [c['property_id'] for c in checks],
         'kind_free_text': 'stateless exhaustive / deviation-bounded DFS over every nondeterministic answer (library random draws via scripted generators, stream letters, flags, fault positions) of the real implementation; exact rational leaf weights for probabilistic properties'},
        {'name': 'explicit-state explorer', 'path': 'ixverif/statespace.py',
         'serves_properties': [c['property_id'] for c in checks if 'explicit' in c.get('engine', '')],
         'kind_free_text': 'BFS over real method calls on deep copies with canonical-state de-duplication and a reference model stepped in lock-step'},
    ],
    'checks': checks,
    'not_applicable': na,
    'notes': 'See DESIGN.md. Known findings: known_findings.json. Seeded property-breaking changes: seeded/.',
}
json.dump(man, open(os.path.join(ROOT, 'MANIFEST.json'), 'w'), indent=1)
print(f"{len(checks)} checks claimed, {len(na)} not claimed")
