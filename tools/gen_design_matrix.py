#!/venv/bin/python
"""Writes section 10 of DESIGN.md (between the markers) from mutants/matrix.json, seeded/*/meta.json, mutants/index.json
and fills seeded/*/meta.json['detected_by']."""
import json, os, re
ROOT = '/verif'
m = json.load(open(f'{ROOT}/mutants/matrix.json'))
NOTES = {
 'C01h': 'first missed: every test model returned a fresh dict per call; a model with ONE pre-allocated output dict, overwritten in place at every call, was added to the shared harness (`buffer` configs, n_inner = 1) of C01 / C02 / C03',
 'C02h': 'first missed: same `buffer` model family (C02 compares with the closed form computed from the pure model function)',
 'C09h': 'first missed: every arrival carried a unique value; streams of equal-valued observations (distinct dict objects told apart by identity; skipped with a note when a storage keeps copies) added',
 'C11h': 'first missed: the read masks of C11d ran over a position-coded stream only (all values distinct); now every read mask x EVERY stream over {0,1} (k = 2, 3, 4) and {1,0,-2} (k = 2)',
 'C12h': 'first missed, twice: the oracle read get() before get_normalized() only - now get() / tracker() / repr / get_normalized() are read again in several orders without an update in between and must agree; and the oracle kept the dict the tracker handed out (the mutant normalised exactly that object in place, so the comparison was with itself) - it now snapshots what it reads',
 'C13h': 'first missed: predictions were fresh dicts; wrapper B of the two wrappers sharing the metric now always receives ONE caller-owned dict overwritten in place before each call',
 'C18h': 'first missed: the public walk_through_tree was never called with observations lacking the split feature; every tree cell now ends with sparse walks through every feature tree (entropy monitor + digest)',
 'C19h': 'first missed: the long-lived imputer received a fresh instance dict per call with a storage update in between; it is now also called on ONE caller-owned dict overwritten in place between consecutive calls (earlier arrivals, then the current one)',
 'C01g': 'decided by C14 (the change is in RiverWrapper): an online river model that learns between two evaluations of the same input was added there (the wrapper must report the CURRENT prediction); C01 drives pure test models',
 'C02g': 'first missed: the imputer spy was truthy; it now defines __len__ returning 0 (a user imputer may be falsy when the explainer is built - the library must test `is None`)',
 'C04g': 'NOT flagged, by design: manifests only for sparse collections.defaultdict observations. A scenario family for them was built (C04, C06) and caught C04g / C06g / C15g, but it raised alarms on two behaviour-preserving refactorings (R12 copies rows with dict(), R3 reads the stored row without copying it) - Mappings whose reads insert keys are outside the properties; the family was removed again (section 9.4, item 24)',
 'C05g': 'decided by C07 (the change is in IntervalStorage: unlabelled arrivals mixed into a labelled stream were already driven there); C05 uses labelled streams',
 'C06g': 'NOT flagged, by design: see C04g (refactoring R3 contains the same edit)',
 'C07g': 'first missed: storages were never copied; checkpoint / restore configs added (deep copy or pickle round trip after t_f updates, the stream continues on the copy, the original must not change any more)',
 'C08g': 'first missed: only the library classes themselves were driven; a user subclass whose get_data returns copies of the lists added to C08 and C09 (and a deep-copy continuation)',
 'C09g': 'first missed: same checkpoint / restore family (C07 catches it too); in C09 the copy is taken before the reservoir is full and the law must hold for the copy',
 'C10g': 'first missed: only the library classes themselves were driven; user subclasses (one overriding update and delegating with super().update(), one overriding nothing) added',
 'C13g': 'first missed: only the metrics shipped with river were discovered; user subclasses with sklearn-style __call__ sugar (callable AND a Metric) added to the discovered set',
 'C14g': 'first missed: batches were only driven with three feature names; batches with one and two names (1-3 rows) added',
 'C15g': 'NOT flagged, by design: same mutation as C06g',
 'C17g': 'first missed: injected faults were Exception subclasses (or StopIteration); a KeyboardInterrupt subclass was added as a third fault class - a caller that catches it and resumes must find the estimates untouched',
 'C18g': 'NOT caught: needs a single-value river metric as loss, a model returning {label: score} with a NaN label, an exact tie of the top scores and two NaN objects at different positions of a set. Identity-hashed labels are not part of the C18 cells (limitation, section 7)',
 'C19g': 'first missed: the probe enumerated three of the four flag combinations; use_storage=True with direct_predict_numeric=True added',
 'C20g': 'first a harness error (complex std crashed the oracle; now reported), then: long streams continue on a pickle round trip after n/3 values and on a deep copy after 2n/3',
 'pfi_skips_falsy_feature_names': 'written after wave g: the feature-name sets now contain the falsy names 0, 0.0 and the empty string',
 'C01f': 'first missed: all observations of a stream had the same keys in the same order. Per-observation shapes were added to the shared stream driver (reversed key order with a model that reads by position; an optional context key the model reads with a default) and a model-input-shape oracle to C02/C03',
 'C02f': 'NOT caught, by design: judged not to violate the properties as stated (algebraically identical update; within the forward-error bound of a standard evaluation of the recurrence; refactoring R10 uses the same form for alpha < 1/2) - see seeded/C02f/meta.json',
 'C03f': 'first missed: model outputs were of order one; multi-label outputs scaled by 1e-10 added to C03, all values scaled by 1e-10 to C12',
 'C04f': 'first missed: background values were pairwise different under ==; rows holding True / 1 / Fraction(1) and a model that tells them apart were added',
 'C05f': 'decided by C14 (the change is in the wrapper layer): batches without feature names whose rows have different key orders were added there; C05 drives models that take dicts directly',
 'C06f': 'first missed: subsets were list / tuple / set / frozenset / dict keys; NumPy arrays added (the property says any iterable)',
 'C08f': 'first missed: sizes were Python ints; long paths with np.int8 / np.uint8 / np.int16 sizes beyond the range of the type added',
 'C10f': 'first missed: alphas were 0, 1/4, 1/3, 1/2, 1; non-zero alphas below eps, alpha just below 1 and np.float32 alphas added, with a forward-error bound of the recurrence instead of eps*max|v| (vacuous for tiny alpha)',
 'C11f': 'first missed: values were Python numbers; windows of np.float16 / np.float32 values added (accuracy demanded relative to the narrowest type, finiteness always)',
 'C13f': 'first missed: BFS depth 4 sees at most 4 distinct labels; one long history per metric (400 calls, new labels every call, re-validation every 64) added as a necessary-condition probe',
 'C14f': 'first missed: every wrapper instance was called once; call histories on ONE instance with changing value types added (result must equal a fresh wrapper)',
 'C15f': 'first missed: counts were Python ints; a scenario with np.int64 constructor value and np.uint8 / np.int64 per-call overrides added',
 'C16f': 'first missed: deltas were 1/100, 1/2, 1; the smallest floats (5e-324, 1e-310, 2.3e-308) added, reference via exact rational arithmetic and integer square root (judged only where the literal formula itself stays in range)',
 'C17f': 'first missed: the imputer always shared the explainer storage (and the imputer spy hid its attributes); an imputer on a fault-injecting storage of its own added, the spy is now transparent',
 'C18f': 'first missed: no cell overrode n_inner_samples per call; cells with override below / above the constructor value added (scratch memory sized for the constructor value must not leak: the four runs of a cell have different allocation histories)',
 'C19f': 'first missed: numerical features were floats in [0,1]; a numerical feature holding integers beyond 2**53 added',
 'C20f': 'first missed: multi-key trackers were not part of the long streams; eras of magnitude 1e8 / 1e-8 through MultiValueTracker added (normalised view judged against the tracker own values)',
 'C01e': 'first missed: explainers were never copied; every exact stream now takes a deepcopy checkpoint before the last observation, lets the original move on and then continues on the copy (the copy must be independent)',
 'C02e': 'first missed: (a) no stream went past the capacity of a bounded storage with in-place replacement, (b) the closed form was computed from the rows the imputer USED; long streams on Interval/Sequence/Geometric storages and a provenance oracle (every imputed value comes from a row that is in the storage at call start) were added',
 'C03e': 'first missed: observations never carried keys outside feature_names; an extra-key option was added to the shared stream driver (the model reads the extra key, it must never be imputed)',
 'C04e': 'first missed: all test models read features by name; a positional model (reads x.values() in order, as SklearnWrapper/TorchWrapper do without feature names) was added to C04 and a key-order oracle to C06',
 'C05e': 'first missed: one explainer per execution; two default-constructed explainers in one process were added (results of the second must not depend on the first); a choice-point divergence between identically built executions is reported as hidden shared state',
 'C06e': 'first missed: the defaults of a DefaultImputer were never edited between two impute calls; added as an operation of the history alphabet',
 'C08e': 'first missed by C08 (caught by C18 after a constructor check was added there): scripted draws ignored random.seed. The engine now models a library-side re-seed (later draws of that generator carry no probability and the law must hold for every fixed answer sequence) and C08/C09 construct every other library class while the reservoir is in use',
 'C10e': 'first missed: tracker attributes were never re-assigned after construction; a scenario that re-assigns the public alpha attribute before the first value was added (the closed form for the NEW alpha must hold)',
 'C12e': 'first missed: needed a key resting exactly at 0 that is then omitted; zero-valued and omitted letters were added for every base tracker',
 'C13e': 'first missed: labels were ints/bools/strings that float() leaves alone or rejects; numeric-looking strings and ints > 2**53 were added to the label alphabet',
 'C15e': 'first missed: same two-instance scenario as C05e for the incremental explainers (foreign rows must never appear in the imputations of the second explainer)',
 'C16e': 'first missed: dicts handed out by the explainer were never edited by the caller; every handed-out dict is now mutated and the public views re-queried (they must be unaffected)',
 'C17e': 'first missed: the injected exception types did not include StopIteration (absorbed by map/list/zip machinery); an InjectedStop fault kind was added and a swallowed fault is itself a violation',
 'C18e': 'first missed: every observation object was kept alive by the harness; each cell with delivery_pair is now run twice – short-lived dict displays vs long-lived objects – and the digests must agree (results must not depend on object identity / lifetime); update_storage is directly followed by explain_one on a 3-slot reservoir',
 'C19e': 'first a harness error: the scripted randrange(0) raised from harness code; emulated primitive errors are now attributed to the calling library code',
 'C20e': 'first missed: the per-call n_inner_samples override was not part of the long explainer runs; added, with an independent reference',
 'uniform_reseeds_in_update': 'written after C08e to probe the re-seed model: results stay reproducible (C18 is rightly silent), the draws are no longer random',
 'geometric_reseeds_in_update': 'see uniform_reseeds_in_update',
 'marginal_imputer_reseeds': 'see uniform_reseeds_in_update (C04: the expectation over the remaining random draws is wrong for every fixed answer sequence)',
 'C03a': 'first missed: with deviation bound 1 it needs a non-identity feature order AND a non-first row; fixed by making the label set depend on the last feature and by the second base execution (all-last default answers)',
 'C07b': 'first missed: no unlabelled (y=None) arrivals were driven; a third row mode was added to C07',
 'C04a': 'also caught by C06 after histories were started from full storages',
 'C12b': 'first a harness error (ZeroDivisionError escaped); library exceptions are now reported as violations',
 'C18b': 'first missed: needed a sharp drift; a third stream was added for the tree configurations (detection depends on heap layout, observed in 6 of 9 tree cells)',
 'C15b': 'first missed: needed a storage warmed through update_storage before the first call; added as an option letter',
 'C02c': 'first missed: same warm-start option added to the shared stream driver',
 'C03c': 'first missed: needed a model whose label set swaps; model kind "swap" added to the product',
 'C08c': 'first missed (needs ~745 replacements, out of reach of the small exhaustive (k,n) trees); long constant-draw paths with a liveness oracle were added',
 'C11c': 'first missed: large-offset/small-spread alphabet and a deviation-relative variance tolerance added',
 'C12c': 'first missed: key family with non-orderable key types added',
 'C13c': 'first missed: non-finite predictions added to the regression alphabet',
 'C14c': 'first missed: the oracle wrongly accepted one-hot dicts over the labels of the whole batch; now strict',
 'C15c': 'first missed: observations now optionally carry an unexplained extra key',
 'C16b': 'first caught only through a harness artefact; one-feature explainers added to part B',
 'C20c': 'first missed: part (iii) compared the implementation with itself on exact inputs; an independent closed-form PFI reference was added',
 'C01d': 'first missed: update_storage=False was never driven on the first call; now allowed whenever the imputer does not read the explainer storage (DefaultImputer)',
 'C02d': 'first missed: needs 3 explained observations (a skipped no-op update after the first one); long streams (5-6 observations) added around the two base executions',
 'C04d': 'first missed: the public sampling_strategy attribute is now also reassigned after construction',
 'C06d': 'first missed (then a harness error): sparse instances that lack a requested feature are driven; the model spy reports incomplete inputs',
 'C08d': 'the storage is corrupted through the imputer: caught by C06 (storage modified) and by new through-explainer drivers in C07 and C08',
 'C09d': 'first missed: targets are now taken from a menu with falsy values (0, False, "", 0.0, None)',
 'C10d': 'first missed: np.uint8 / np.int8 / np.uint16 streams added',
 'C11d': 'first missed: statistics were read after every update; all read masks over a position-coded stream added',
 'C12d': 'first missed: the caller now keeps mutating the base tracker it passed in',
 'C15d': 'first missed: the user model now raises at every evaluation position of the last call and x must be untouched',
 'C16d': 'first missed: a deep copy of the explainer is checked while only the original moves on',
 'C17d': 'first missed: the injected fault was a plain Exception subclass; it is now an instance of ValueError, IndexError, KeyError, TypeError, ... at once',
 'C18d': 'first missed: ONE river model object with string labels is now shared by all cells of a process',
 'C19d': 'first missed: one long-lived TreeImputer object is now used before every 4th update of every block word',
 'es_alpha_swapped': 'first missed: alpha=1/2 is symmetric; the quick product now uses alpha=1/4 (also killed by the repository tests)',
}
def catches(r):
    out = []
    for k, v in sorted(r.items()):
        if k.startswith('C') and isinstance(v, dict):
            keys = ', '.join(sorted({x.split('/', 1)[1] if '/' in x else x for x in v.get('keys', [])})[:3])
            out.append(f"{k} {'✔' if v.get('exit') == 1 else '✘ exit ' + str(v.get('exit'))} ({keys[:70]})")
    return '; '.join(out)
lines = []
lines.append("| change | breaks | what it needs to manifest | repository tests | verdict of the check(s) | note |")
lines.append("|---|---|---|---|---|---|")
seeded = sorted(n for n in m if os.path.isdir(f'{ROOT}/seeded/{n}'))
for n in seeded:
    meta = json.load(open(f'{ROOT}/seeded/{n}/meta.json'))
    r = m[n]
    meta['detected_by'] = [k for k, v in r.items() if k.startswith('C') and isinstance(v, dict) and v.get('exit') == 1]
    meta['check_keys'] = {k: v.get('keys') for k, v in r.items() if k.startswith('C') and isinstance(v, dict)}
    json.dump(meta, open(f'{ROOT}/seeded/{n}/meta.json', 'w'), indent=1)
    needs = meta['needs_to_manifest'] if not n.startswith('fix') else meta['origin'].split('(', 1)[1].rsplit(')', 1)[0][:110]
    lines.append(f"| seeded/{n} | {meta['breaks_property']} | {needs[:170]} | {r.get('tests', '')[:9]} | {catches(r)} | {NOTES.get(n, '')} |")
idx = json.load(open(f'{ROOT}/mutants/index.json'))
for n in sorted(idx):
    if n not in m:
        continue
    r = m[n]
    lines.append(f"| mutants/{n} | {', '.join(idx[n])} | (hand-written, one edit) | {r.get('tests', '')[:9]} | {catches(r)} | {NOTES.get(n, '')} |")
missed = [n for n, r in m.items() if not any(isinstance(v, dict) and v.get('exit') == 1 for k, v in r.items() if k.startswith('C'))]
txt = open(f'{ROOT}/DESIGN.md').read()
block = ("<!-- MATRIX-BEGIN -->\n" + '\n'.join(lines) + f"\n\nTotals: {len(seeded)} seeded changes ({len([n for n in seeded if not n.startswith('fix')])} from independent "
         f"sub-agents, {len([n for n in seeded if n.startswith('fix')])} fix reverts), {len([n for n in idx if n in m])} hand-written; "
         f"caught by none of the expected checks: {missed if missed else 'none'}.\n<!-- MATRIX-END -->")
if '<!-- MATRIX-BEGIN -->' in txt:
    txt = re.sub(r'<!-- MATRIX-BEGIN -->.*<!-- MATRIX-END -->', lambda _: block, txt, flags=re.S)
else:
    txt = txt.replace("\n## 11. How to run", "\n## 10. Seeded changes and which checks catch them\n\n" + SECTION_HEAD + block + "\n\n## 11. How to run") if False else txt
open(f'{ROOT}/DESIGN.md', 'w').write(txt)
print(len(lines) - 2, 'rows; missed:', missed)
