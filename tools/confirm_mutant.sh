#!/bin/bash
# tools/confirm_mutant.sh <dir with patch.diff demo.py notes.md> : confirm in a scratch worktree that
# (a) demo passes on HEAD, (b) patch applies, (c) test-suite passes with it, (d) demo fails with it.
src="$1"; wt=/tmp/wt/confirm_$$
git -C /repo worktree add --detach "$wt" HEAD -q || exit 2
trap 'git -C /repo worktree remove --force "$wt"' EXIT
cd "$wt"
PYTHONPATH="$wt" timeout 900 /venv/bin/python "$src/demo.py" >/tmp/confirm_clean_$$.log 2>&1; a=$?
git apply "$src/patch.diff" || { echo "PATCH DOES NOT APPLY"; exit 2; }
git diff --stat | tail -3
timeout 900 /venv/bin/python -m pytest -q -p no:cacheprovider tests >/tmp/confirm_tests_$$.log 2>&1; t=$?
PYTHONPATH="$wt" timeout 900 /venv/bin/python "$src/demo.py" >/tmp/confirm_mut_$$.log 2>&1; b=$?
echo "demo clean exit=$a  tests exit=$t ($(tail -1 /tmp/confirm_tests_$$.log))  demo mutated exit=$b"
tail -2 /tmp/confirm_mut_$$.log | cut -c1-300
[ $a -eq 0 ] && [ $t -eq 0 ] && [ $b -ne 0 ] && echo CONFIRMED || echo NOT-CONFIRMED
