#!/venv/bin/python
"""tools/keep_mutant.py <id> <property> "<what it needs to manifest>" : copy a confirmed agent mutant to seeded/<id>/"""
import json, os, shutil, sys
mid, prop, needs = sys.argv[1], sys.argv[2], sys.argv[3]
src = f"/tmp/wtout/{mid}"
dst = f"/verif/seeded/{mid}"
os.makedirs(dst, exist_ok=True)
for f in ('patch.diff', 'demo.py', 'notes.md'):
    shutil.copy(os.path.join(src, f), os.path.join(dst, f))
meta = {
    'id': mid, 'breaks_property': prop, 'origin': 'independent sub-agent given only the property text and a scratch worktree',
    'needs_to_manifest': needs,
    'confirmed': {
        'how': 'tools/confirm_mutant.sh in a scratch worktree of /repo HEAD (removed afterwards)',
        'demo_on_unchanged_tree': 'exit 0', 'test_suite_with_change': '38 passed', 'demo_with_change': 'exit 1'},
    'detected_by': [],
}
json.dump(meta, open(os.path.join(dst, 'meta.json'), 'w'), indent=1)
print('kept', dst)
