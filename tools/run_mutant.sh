#!/bin/bash
# tools/run_mutant.sh <patch.diff> <check id>... : apply to /repo, run the quick checks, revert.
patch="$(realpath "$1")"; shift
[ -z "$(git -C /repo status --porcelain)" ] || { echo "/repo not clean"; exit 2; }
git -C /repo apply "$patch" || exit 2
for c in "$@"; do
  out=$(cd /verif && ./check $c --tier ${TIER:-quick} 2>&1); rc=$?
  echo "== $c exit=$rc"; echo "$out" | grep -E "VIOLATION|KNOWN|HARNESS|key=|^C[0-9]" | cut -c1-260 | head -8
done
git -C /repo checkout -- . ; git -C /repo status --porcelain | head -3
cd /verif && git checkout -- evidence 2>/dev/null
