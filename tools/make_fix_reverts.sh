#!/bin/bash
# Regenerates seeded/fixNN/ = the reverse of each "fix:" commit in /repo, as a patch against HEAD
# (the pre-fix defect re-introduced): every such patch must be caught by the check of its property.
wt=/tmp/wt/fixrev; git -C /repo worktree remove --force $wt 2>/dev/null
git -C /repo worktree add --detach $wt HEAD -q
i=0
declare -A PROP=( [1]=C08 [2]=C04 [3]=C15 [4]=C15 [5]=C15 [6]=C16 [7]=C12 [8]=C11 [9]=C14 [10]=C14 [11]=C17 [12]=C18 [13]=C19 )
for c in $(git -C /repo log --reverse --format=%h --grep='^fix:' d4e86ea..HEAD); do
  i=$((i+1)); n=$(printf "fix%02d" $i); mkdir -p /verif/seeded/$n
  ( cd $wt && git revert --no-commit $c >/dev/null 2>&1 && git diff HEAD > /verif/seeded/$n/patch.diff; git revert --abort 2>/dev/null; git reset -q --hard HEAD )
  subj=$(git -C /repo log -1 --format=%s $c)
  cat > /verif/seeded/$n/meta.json <<EOF
{
 "id": "$n", "breaks_property": "${PROP[$i]}", "origin": "reverse of /repo commit $c ($subj): re-introduces the genuine defect of the pinned tree",
 "needs_to_manifest": "see known_findings.json entry for commit $c",
 "confirmed": {"how": "the check of ${PROP[$i]} reported it on the pinned tree before the fix; the pre-fix test-suite is the baseline"},
 "detected_by": []
}
EOF
  echo "$n $c ${PROP[$i]} $(wc -l < /verif/seeded/$n/patch.diff) lines"
done
git -C /repo worktree remove --force $wt
