#!/venv/bin/python
"""Prompt for a 'behaviour-preserving refactoring' sub-agent: tools/agent_prompt_refactor.py <tag> "<focus>" """
import json, sys
tag, focus = sys.argv[1], sys.argv[2]
props = [json.loads(l) for l in open('/verif/properties.jsonl')]
wt = f"/tmp/wt/R{tag}"; out = f"/tmp/wtout/R{tag}"
contract = "\n".join(f"  {p['id']} {p['title']}: {p['statement']}" for p in props)
print(f"""You are a developer refactoring a small Python library. The project is iXAI (incremental PFI and SAGE feature importance for streaming models, reservoir storages, imputers, running-statistic trackers). You have your own scratch git worktree at {wt} (work ONLY there; never touch /repo or /verif and do not read anything under /verif). Interpreter: /venv/bin/python; import your copy with PYTHONPATH={wt}. Tests: `cd {wt} && /venv/bin/python -m pytest -q -p no:cacheprovider tests` (38 pass). No network. Do not use `git stash` (the stash is shared with other developers' worktrees).

The library has the following behavioural contract (20 properties). ALL of them must continue to hold after your change:

{contract}

Your task: make a SUBSTANTIAL but behaviour-PRESERVING refactoring / re-implementation focused on: {focus}
Be bold about the implementation (different algorithm, different data structures, different internal attribute names, different order or kind of random draws from Python's `random` / `numpy.random` global generators where the contract does not fix them, caching done correctly, early returns, helper functions) as long as every property above still holds exactly as stated (including exact arithmetic when the inputs are exact numbers such as fractions.Fraction, support for str/int/float feature names, arbitrary iterables, etc.). The point is to produce code that is DIFFERENT from the original but CORRECT with respect to the contract. Keep the public API (class names, constructor and method signatures, public attributes/properties mentioned in the contract). Make sure all 38 tests still pass.

Deliverables in {out}/ (create it): patch.diff (`git -C {wt} diff`), notes.md (what you re-implemented and why each affected property still holds; any place where you were unsure whether the contract allows your choice). Leave the change applied. Final reply: one short paragraph.""")
