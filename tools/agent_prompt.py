#!/venv/bin/python
"""Prints the prompt for a mutation sub-agent: tools/agent_prompt.py C07 a  -> worktree /tmp/wt/C07a"""
import json, sys, os
pid, tag = sys.argv[1], sys.argv[2]
hint = sys.argv[3] if len(sys.argv) > 3 else ''
props = {json.loads(l)['id']: json.loads(l) for l in open('/verif/properties.jsonl')}
p = props[pid]
wt = f"/tmp/wt/{pid}{tag}"
out = f"/tmp/wtout/{pid}{tag}"
print(f"""You are helping to evaluate a verification effort by playing the role of a developer who introduces a subtle regression.

The project is iXAI (a small Python library computing incremental PFI and SAGE feature importance for streaming models, with reservoir storages, imputers and running-statistic trackers). You have your own scratch git worktree of it at {wt} (work ONLY there; never touch /repo or /verif, and do not read anything under /verif). Python interpreter with all dependencies: /venv/bin/python. To import your modified copy use PYTHONPATH={wt} (e.g. `cd {wt} && PYTHONPATH={wt} /venv/bin/python demo.py`). The existing test suite is run with: `cd {wt} && /venv/bin/python -m pytest -q -p no:cacheprovider tests` (38 tests pass on the unmodified tree). There is no network.

Here is a semantic property of the library that currently holds:

  id: {pid}
  title: {p['title']}
  statement: {p['statement']}
  quantified over: {p['quantifier']['text']}
  files it is anchored in: {', '.join(p['anchors']['files'])}

Your task: make ONE realistic change to the library source (under {wt}/ixai/) that BREAKS this property while the code still imports and ALL existing tests still pass. The change should look like a plausible refactoring, optimisation or bug-fix gone wrong that could survive code review - not sabotage with an obvious marker. Most importantly it must need something SPECIFIC to manifest: a particular sequence of several operations, an unusual-but-legal input or configuration, a particular outcome of the random draws, a fault at a particular point, or two cooperating sites that each look fine alone. It must NOT be a change that ordinary use (the first call with default settings) would expose at once. {hint}

Deliverables (write them to {out}/, create the directory):
 1. {out}/patch.diff  - `git -C {wt} diff` of your change (source files under ixai/ only; do not modify tests).
 2. {out}/demo.py     - a small self-contained program that imports ixai (from PYTHONPATH), exercises the property, exits 0 when the property holds and exits 1 (printing what went wrong) when it is violated. It must exit 1 with your change applied and exit 0 on the unmodified tree (check both; do NOT use `git stash` - the stash is shared between worktrees and other agents work concurrently - instead: `git -C {wt} diff > {out}/patch.diff; git -C {wt} apply -R {out}/patch.diff; <run demo>; git -C {wt} apply {out}/patch.diff`, running the demo each time with PYTHONPATH={wt}). Make it deterministic (seed the generators or enumerate).
 3. {out}/notes.md    - 5-10 lines: what you changed, why it breaks the property, exactly what is needed for it to manifest (the triggering sequence / input / draws), and the commands you ran with their results (tests passing with the change; demo failing with / passing without).

Leave the change applied in the worktree when you finish. Keep your final reply short: the one-paragraph summary from notes.md.""")
