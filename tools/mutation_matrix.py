#!/venv/bin/python
"""tools/mutation_matrix.py [-jN] [names...] : (N changes in parallel, each check with 16/N workers) for every mutant (mutants/*.diff, seeded/*/patch.diff) apply it to a scratch
worktree of /repo HEAD (never to /repo itself), run the repository test-suite there (must still pass) and the quick
checks expected to catch it with IXAI_REPO pointing at the worktree (evidence goes to a scratch directory); record in
mutants/matrix.json; the worktree is removed after every mutant."""
import glob, json, os, re, subprocess, sys, time
os.chdir(os.environ.get('VERIF_ROOT', '/verif'))
idx = json.load(open('mutants/index.json'))
muts = {n: (f'mutants/{n}.diff', props) for n, props in idx.items()}
for d in sorted(glob.glob('seeded/*/')):
    n = os.path.basename(d.rstrip('/'))
    meta = json.load(open(d + 'meta.json'))
    extra = meta.get('also_check', [])
    muts[n] = (d + 'patch.diff', [meta['breaks_property']] + extra)
want = [a for a in sys.argv[1:] if not a.startswith('-j')]
par = next((int(a[2:]) for a in sys.argv[1:] if a.startswith('-j')), 1)
try:
    matrix = json.load(open('mutants/matrix.json'))
except FileNotFoundError:
    matrix = {}
have = {os.path.basename(f)[1:3] for f in glob.glob('checks/c[0-9][0-9].py')}


def run_one(item):
    name, (patch, props) = item
    wt = f'/tmp/wt/matrix_{os.getpid()}_{name}'
    subprocess.run(['git', '-C', '/repo', 'worktree', 'remove', '--force', wt], capture_output=True)
    subprocess.check_call(['git', '-C', '/repo', 'worktree', 'add', '--detach', wt, 'HEAD', '-q'])
    try:
        if subprocess.run(['git', '-C', wt, 'apply', os.path.abspath(patch)]).returncode:
            return name, {'error': 'patch does not apply'}
        row = {'expected': props}
        t = subprocess.run(f'cd {wt} && /venv/bin/python -m pytest -q -x -p no:cacheprovider tests 2>&1 | tail -1', shell=True, capture_output=True, text=True).stdout.strip()
        row['tests'] = t
        env = dict(os.environ, IXAI_REPO=wt, VERIF_EVIDENCE_DIR=f'/tmp/evidence_matrix_{os.getpid()}_{name}')
        if par > 1:
            env['VERIF_JOBS'] = str(max(2, (os.cpu_count() or 4) // par))
        for pid in props:
            if pid[1:] not in have:
                row[pid] = 'no-check-yet'; continue
            r = subprocess.run(['./check', pid, '--tier', 'quick'], capture_output=True, text=True, env=env)
            keys = re.findall(r'key=(\S+)', r.stdout)
            row[pid] = {'exit': r.returncode, 'keys': keys[:4]}
        print(name, json.dumps(row)[:300], flush=True)
        return name, row
    finally:
        subprocess.run(['git', '-C', '/repo', 'worktree', 'remove', '--force', wt], capture_output=True)
        subprocess.run(['rm', '-rf', f'/tmp/evidence_matrix_{os.getpid()}_{name}'])


items = [(n, v) for n, v in muts.items() if not want or any(w in n or w in v[1] for w in want)]
from concurrent.futures import ThreadPoolExecutor
with ThreadPoolExecutor(max_workers=par) as ex:
    for name, row in ex.map(run_one, items):
        matrix[name] = row
        json.dump(matrix, open('mutants/matrix.json', 'w'), indent=1, sort_keys=True)
json.dump(matrix, open('mutants/matrix.json', 'w'), indent=1, sort_keys=True)
def caught(r):
    return any(isinstance(v, dict) and v.get('exit') == 1 for k, v in r.items() if k.startswith('C'))


missed = [n for n, r in matrix.items() if not caught(r)]
partial = [n for n, r in matrix.items() if caught(r) and any(isinstance(v, dict) and v.get('exit') != 1 for k, v in r.items() if k.startswith('C'))]
print('caught by no expected check:', missed)
print('caught, but not by every expected check:', partial)
