#!/bin/bash
# tools/process_agent_mutant.sh <id e.g. C07h> "<needs>" : confirm an agent's change (scratch worktree), keep it as seeded/<id>,
# remove the agent's worktree (then: tools/mutation_matrix.py <ids>).
id="$1"; needs="$2"; prop="${id:0:3}"
out=$(tools/confirm_mutant.sh /tmp/wtout/$id 2>&1); echo "$out" | tail -4
git -C /repo worktree remove --force /tmp/wt/$id 2>/dev/null
echo "$out" | grep -q '^CONFIRMED' || { echo "$id NOT CONFIRMED - not kept"; exit 3; }
tools/keep_mutant.py "$id" "$prop" "$needs"
