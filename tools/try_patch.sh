#!/bin/bash
# tools/try_patch.sh <patch.diff> <check id>... : apply the patch to a scratch worktree of /repo HEAD (never /repo itself),
# run the checks (TIER=quick by default) against it with evidence redirected to a scratch directory, remove the worktree.
patch="$(realpath "$1")"; shift
wt=/tmp/wt/try_$$; mkdir -p /tmp/wt
git -C /repo worktree add --detach $wt HEAD -q || exit 2
git -C $wt apply "$patch" || { git -C /repo worktree remove --force $wt; exit 2; }
for c in "$@"; do
  out=$(cd /verif && IXAI_REPO=$wt VERIF_EVIDENCE_DIR=/tmp/evidence_try_$$ ./check $c --tier ${TIER:-quick} 2>&1); rc=$?
  echo "== $c exit=$rc"; echo "$out" | grep -E "VIOLATION|KNOWN|HARNESS|key=|^C[0-9]" | cut -c1-${WIDTH:-300} | head -8
done
git -C /repo worktree remove --force $wt; rm -rf /tmp/evidence_try_$$
