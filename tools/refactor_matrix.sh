#!/bin/bash
# tools/refactor_matrix.sh [R1 ...] : apply each behaviour-preserving refactoring (refactorings/<id>/patch.diff, written by
# independent sub-agents that were given the 20 property statements as the contract to PRESERVE) to a scratch worktree of
# /repo HEAD, run the repository tests and ALL quick checks against it; every check must stay silent (exit 0).
cd /verif; ids="${@:-$(ls refactorings)}"
for r in $ids; do
  wt=/tmp/wt/refm_$r; git -C /repo worktree remove --force $wt 2>/dev/null; git -C /repo worktree add --detach $wt HEAD -q
  git -C $wt apply /verif/refactorings/$r/patch.diff || { echo "$r: patch does not apply"; continue; }
  t=$(cd $wt && /venv/bin/python -m pytest -q -p no:cacheprovider tests 2>&1 | tail -1)
  echo "######## $r  tests: $t"
  tools/probe_refactor.sh $wt | grep -v "rc=0" 
  git -C /repo worktree remove --force $wt
done
