#!/bin/bash
# tools/refactor_matrix.sh [-jN] [R1 ...] : apply each behaviour-preserving refactoring (refactorings/<id>/patch.diff, written
# by independent sub-agents that were given the 20 property statements as the contract to PRESERVE) to a scratch worktree of
# /repo HEAD, run the repository tests and ALL quick checks against it; every check must stay silent (exit 0).
# N refactorings are processed in parallel (default 3), each check with 16/N workers.
cd "${VERIF_ROOT:-/verif}"; par=3
if [[ "$1" == -j* ]]; then par="${1#-j}"; shift; fi
ids="${@:-$(ls refactorings)}"
one() {
  r=$1; wt=/tmp/wt/refm_$r
  git -C /repo worktree remove --force $wt 2>/dev/null; git -C /repo worktree add --detach $wt HEAD -q
  git -C $wt apply "${VERIF_ROOT:-/verif}"/refactorings/$r/patch.diff || { echo "$r: patch does not apply"; git -C /repo worktree remove --force $wt; return; }
  t=$(cd $wt && /venv/bin/python -m pytest -q -p no:cacheprovider tests 2>&1 | tail -1)
  out=$(tools/probe_refactor.sh $wt | grep -v "rc=0")
  echo "######## $r  tests: $t"; [ -n "$out" ] && echo "$out"
  git -C /repo worktree remove --force $wt
}
export -f one; export VERIF_JOBS=$(( 16 / par > 2 ? 16 / par : 2 ))
printf '%s\n' $ids | xargs -P $par -I{} bash -c 'one {}'
