#!/bin/bash
# tools/probe_refactor.sh <tree> : run every quick check against a behaviour-preserving refactoring of the library
# (a scratch worktree); any VIOLATION here is a candidate FALSE ALARM of the machinery (or a bug of the refactoring).
tree="$1"; cd "${VERIF_ROOT:-/verif}"
export IXAI_REPO="$tree" VERIF_EVIDENCE_DIR="/tmp/evidence_probe_$$"
for i in ${CHECKS:-$(seq -w 1 20)}; do
  out=$(./check C$i --tier quick 2>&1); rc=$?
  echo "C$i rc=$rc $(echo "$out" | grep -E '^C[0-9]+ ' | tail -1 | cut -c1-100)"
  [ $rc -ne 0 ] && echo "$out" | grep -E -A2 "VIOLATION|HARNESS" | cut -c1-600 | head -12
done
rm -rf "$VERIF_EVIDENCE_DIR"
