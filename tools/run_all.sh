#!/bin/bash
# tools/run_all.sh [tier] [seed] : every check once, summary line + exit code per check
tier=${1:-quick}; seed=${2:-0}; cd /verif
for i in $(seq -w 1 20); do
  s=$(date +%s.%N); out=$(VERIF_SEED=$seed ./check C$i --tier $tier 2>&1); rc=$?
  e=$(date +%s.%N); printf "C%s rc=%s %5.1fs  %s\n" $i $rc $(echo "$e - $s" | bc) "$(echo "$out" | grep -E '^C[0-9]+ ' | tail -1 | cut -c1-150)"
  [ $rc -ne 0 ] && echo "$out" | grep -E "VIOLATION|HARNESS|key=" | head -5
done
