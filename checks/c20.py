"""C20 – float results stay close to exact arithmetic on long, ill-conditioned streams.

(i)  every float stream up to length 6 (7) over an ill-conditioned alphabet, every prefix;
(ii) a finite enumerated family of long streams: magnitude x offset x ordering x length (1e3..1e5 quick,
     1e6 thorough) x alpha; exact reference from big-integer arithmetic on float.as_integer_ratio()
     (Welford) / 80-digit decimal recurrence (smoothing);
(iii) explainer runs (PFI, SAGE, static and dynamic) with ill-conditioned float losses under scripted
     identical draws, compared with the SAME implementation run on the exact Fraction images of the inputs.
Bounds: |mean - exact| <= 8 n eps max|v|; |ES - exact| <= 8 eps max|v| / alpha; relative variance error
<= 8 n eps kappa, kappa = sqrt(1 + mean^2/var); everything finite.
"""
import decimal
import itertools
import math
import sys
from fractions import Fraction as F

from ixverif import choice
from ixverif.choice import Violation

LEVEL = 'exploration'
PID = 'C20'
EPS = sys.float_info.epsilon
C = 8


def bad(key, what):
    raise Violation(f"{PID}/{key}", what, {})


class Exact:
    """Exact running sums of floats via integers scaled by 2^-1100."""
    SH = 1100

    def __init__(self):
        self.n = 0
        self.s = 0
        self.q = 0
        self.maxabs = 0.0

    def add(self, v):
        num, den = v.as_integer_ratio()
        iv = (num << self.SH) // den          # exact: den is a power of two <= 2^1074
        self.n += 1
        self.s += iv
        self.q += iv * iv
        self.maxabs = max(self.maxabs, abs(v))

    def mean(self):
        return F(self.s, self.n << self.SH)

    def var(self):
        # (q/n - (s/n)^2) / 2^(2 SH)
        return F(self.q * self.n - self.s * self.s, (self.n * self.n) << (2 * self.SH))


def check_welford(tr, ex, where):
    n = ex.n
    m, v = ex.mean(), ex.var()
    got_m, got_v, got_s = tr.mean, tr.var, tr.std
    if isinstance(got_s, complex) or isinstance(got_v, complex) or not (math.isfinite(got_m) and math.isfinite(got_v) and math.isfinite(got_s)):
        bad('not-finite', f"{where}: mean={got_m!r} var={got_v!r} std={got_s!r} (finite real numbers expected)")
    if abs(F(got_m) - m) > C * n * F(EPS) * F(ex.maxabs):
        bad('welford-mean-error', f"{where}: mean={got_m!r}, exact {float(m)!r}; error {float(abs(F(got_m) - m)):.3e} exceeds "
                                  f"{C} n eps max|v| = {float(C * n * F(EPS) * F(ex.maxabs)):.3e}")
    if v > 0:
        kappa = math.sqrt(1 + float(m * m / v))
        rel = float(abs(F(got_v) - v) / v)
        if rel > C * n * EPS * kappa:
            bad('welford-var-error', f"{where}: var={got_v!r}, exact {float(v)!r}; relative error {rel:.3e} exceeds "
                                     f"{C} n eps kappa = {C * n * EPS * kappa:.3e} (kappa={kappa:.3e}, n={n})")
    elif got_v != 0:
        if abs(got_v) > C * n * EPS * ex.maxabs * ex.maxabs:
            bad('welford-var-error', f"{where}: var={got_v!r} for a constant stream")
    if tr.N != n:
        bad('welford-N', f"{where}: N={tr.N}, expected {n}")


def family_stream(mag, off_mult, ordering, n):
    """Deterministic long stream: spread `mag`, offset off_mult*mag, adversarial ordering."""
    off = off_mult * mag
    base = [((i * 7919) % 1000) / 1000.0 - 0.5 for i in range(min(n, 1000))]
    vals = [off + mag * base[i % len(base)] * (1 + (i // len(base)) % 3) for i in range(n)]
    if ordering == 'ascending':
        vals.sort()
    elif ordering == 'descending':
        vals.sort(reverse=True)
    elif ordering == 'alternating':
        vals.sort()
        lo, hi = vals[:n // 2], vals[n // 2:][::-1]
        vals = [x for pair in itertools.zip_longest(hi, lo) for x in pair if x is not None]
    elif ordering == 'constant-then-jump':
        vals = [off + mag * 0.25] * (n - 1) + [off + mag * 1e6]
    elif ordering == 'jump-then-constant':
        vals = [off + mag * 1e8] + [off + mag * (0.7 + 0.001 * base[i % len(base)]) for i in range(n - 1)]
    elif ordering == 'jump-then-noise':
        vals = [off + mag * 1e6] + [off + mag * base[i % len(base)] for i in range(n - 1)]
    return vals


def run_task(task):
    from ixai.utils.tracker import WelfordTracker, ExponentialSmoothingTracker
    kind = task[0]
    viol = []
    n_checked = 0
    outcomes = set()
    try:
        if kind == 'short':
            _, alphabet, L, first = task
            import copy

            def rec(tr, ex, hist):
                nonlocal n_checked
                if len(hist) == L:
                    return
                for v in alphabet:
                    t2, e2 = copy.copy(tr), copy.copy(ex)
                    t2.update(v)
                    e2.add(v)
                    n_checked += 1
                    h2 = hist + [v]
                    check_welford(t2, e2, f"WelfordTracker after float stream {h2}")
                    rec(t2, e2, h2)
            tr, ex = WelfordTracker(), Exact()
            tr.update(first)
            ex.add(first)
            rec(tr, ex, [first])
            outcomes.add(('short', first))
        elif kind == 'long-welford':
            _, mag, off, ordering, n = task
            vals = family_stream(mag, off, ordering, n)
            tr, ex = WelfordTracker(), Exact()
            marks = {n, n // 2, n // 10, 10, 100}
            import copy as _copy
            import pickle as _pickle
            for i, v in enumerate(vals, start=1):
                tr.update(v)
                ex.add(v)
                # checkpoint / restore mid-stream: the stream continues on a pickle round trip, later on a deep copy
                if i == n // 3 or i == (2 * n) // 3:
                    cp = choice.safe_copy(tr, 'pickle' if i == n // 3 else 'deepcopy')
                    tr = cp if cp is not None else tr
                if i in marks:
                    n_checked += 1
                    check_welford(tr, ex, f"WelfordTracker after {i} values of the stream (spread {mag:g}, offset "
                                          f"{off:g} x spread, ordering {ordering}, length {n})")
            outcomes.add(('welford', mag, off, ordering, n, float(tr.var) > 0))
        elif kind == 'long-es':
            _, mag, off, ordering, n, alpha = task
            vals = family_stream(mag, off, ordering, n)
            tr = ExponentialSmoothingTracker(alpha=alpha)
            decimal.getcontext().prec = 80
            da, t = decimal.Decimal(alpha), decimal.Decimal(0)
            mx = 0.0
            marks = {n, n // 2, n // 10, 10, 100}
            import copy as _copy
            import pickle as _pickle
            for i, v in enumerate(vals, start=1):
                tr.update(v)
                if i == n // 3 or i == (2 * n) // 3:
                    cp = choice.safe_copy(tr, 'pickle' if i == n // 3 else 'deepcopy')
                    tr = cp if cp is not None else tr
                t = (1 - da) * t + da * decimal.Decimal(v)
                mx = max(mx, abs(v))
                if i in marks:
                    n_checked += 1
                    got = tr.get()
                    where = (f"ExponentialSmoothingTracker(alpha={alpha}) after {i} values (spread {mag:g}, offset "
                             f"{off:g} x spread, ordering {ordering})")
                    if not math.isfinite(got):
                        bad('not-finite', f"{where}: value {got!r}")
                    err = abs(decimal.Decimal(got) - t)
                    if err > decimal.Decimal(C * EPS * mx / alpha):
                        bad('es-error', f"{where}: value {got!r}, exact {float(t)!r}; error {float(err):.3e} exceeds "
                                        f"{C} eps max|v| / alpha = {C * EPS * mx / alpha:.3e}")
                    if tr.N != i:
                        bad('es-N', f"{where}: N={tr.N}")
            outcomes.add(('es', mag, off, ordering, n, alpha))
        elif kind == 'long-multi':
            # multi-key tracker over eras of very different magnitude: the normalised view must stay the ratio of the
            # tracker's OWN current values (judged against them, so the accuracy of the base tracker does not enter)
            from ixai.utils.tracker import MultiValueTracker
            _, base, pattern, n = task
            bt = WelfordTracker() if base == 'welford' else ExponentialSmoothingTracker(alpha=base)
            tr = MultiValueTracker(bt)
            keys = ('a', 'b', 'c')
            for i in range(1, n + 1):
                era = {'big-then-small': i > n // 5, 'small-then-big': i <= n // 5, 'eras': (i // (n // 8 + 1)) % 2 == 1}[pattern]
                mag = 1e-8 if era else 1e8
                tr.update({k: mag * (1 + 0.37 * j + 0.01 * ((i + j) % 7)) for j, k in enumerate(keys)})
                if i % 50 == 0 or i == n:
                    n_checked += 1
                    raw, norm = tr.get(), tr.get_normalized()
                    where = (f"MultiValueTracker({'WelfordTracker' if base == 'welford' else f'ExponentialSmoothingTracker(alpha={base})'}) "
                             f"after {i} updates of 3 positive keys ({pattern}: magnitudes 1e8 / 1e-8)")
                    tot = sum(F(float(v)) for v in raw.values())
                    if any(not math.isfinite(float(v)) for v in norm.values()):
                        bad('multi-not-finite', f"{where}: get_normalized() = {norm}")
                    for k in keys:
                        want = F(float(raw[k])) / tot
                        if abs(F(float(norm[k])) - want) > 64 * EPS * max(want, F(1, 10 ** 6)):
                            bad('multi-normalised', f"{where}: get_normalized()[{k!r}] = {float(norm[k])!r} but the tracked "
                                                    f"values {dict(raw)} give {float(want)!r}")
            outcomes.add(('multi', base, pattern, n))
        elif kind == 'explainer':
            n_checked, outcomes = explainer_case(task)
    except Exception as e:
        v = e if isinstance(e, Violation) else choice.library_exception(e, f'in task {task[:3]}')
        viol.append((v.key, v.what))
    return dict(task=[str(x) for x in task], n=max(1, n_checked), outcomes=outcomes, violations=viol)


# ------------------------------------------------------------------------------------------- (iii)
def explainer_case(task):
    _, expl, dynamic, alpha, offset, n_obs = task
    from ixai.explainer import IncrementalPFI, IncrementalSage
    from ixai.storage import BatchStorage
    names = ['a', 'b', 'c']

    def data(conv):
        out = []
        for t in range(n_obs):
            a = ((t * 7919) % 101) / 101.0
            b = ((t * 104729) % 97) / 97.0 - 0.5
            c = ((t * 31) % 7) / 7.0
            x = {'a': conv(a), 'b': conv(b), 'c': conv(c)}
            y = conv(float(offset) + 2.0 * a - b)
            out.append((x, y))
        return out

    maxloss = [0.0]

    def run(conv, alpha_v):
        off = conv(float(offset))

        def model(x):
            return {'output': off + 2 * x['a'] - x['b'] * x['c'] + x['c'] * conv(0.125)}

        def loss(y, p):
            d = y - p['output'] + off * conv(1e-9)
            val = d * d + off           # large, nearly constant losses: ill-conditioned differences
            maxloss[0] = max(maxloss[0], abs(float(val)))
            return val
        cls = IncrementalPFI if expl == 'pfi' else IncrementalSage
        ex = cls(model, loss, list(names), storage=BatchStorage(store_targets=False), n_inner_samples=2,
                 dynamic_setting=dynamic, smoothing_alpha=alpha_v)
        traj = []

        def driver(run_):
            for x, y in data(conv):
                vals = ex.explain_one(dict(x), y)
                traj.append(dict(vals))
            return None
        choice.execute(driver, (), None, False)        # scripted identical (default) draws in both runs
        return traj
    tf = run(float, float(alpha))
    tx = run(lambda v: F(v), F(float(alpha)))
    n_checked = 0
    scale = maxloss[0] + 1.0
    for t, (vf, vx) in enumerate(zip(tf, tx)):
        for k in vx:
            n_checked += 1
            g = float(vf[k])
            if not math.isfinite(g):
                bad('explainer-not-finite', f"Incremental{expl.upper()} (dynamic={dynamic}, alpha={alpha}, loss offset "
                                            f"{offset:g}): importance of {k!r} after {t + 1} observations is {g!r}")
            tol = 64 * EPS * scale * (t + 1 if not dynamic else 1.0 / float(alpha))
            if abs(F(g) - vx[k]) > F(tol):
                bad('explainer-error', f"Incremental{expl.upper()} (dynamic={dynamic}, alpha={alpha}, loss offset {offset:g}): "
                                       f"importance of {k!r} after {t + 1} observations is {g!r}, exact arithmetic on the same "
                                       f"inputs gives {float(vx[k])!r}; error {float(abs(F(g) - vx[k])):.3e} > {tol:.3e}")
    if expl == 'pfi':
        n_checked += pfi_independent(dynamic, alpha, offset, n_obs)
    return n_checked, {('explainer', expl, dynamic, alpha, offset)}


def pfi_independent(dynamic, alpha, offset, n_obs):
    """IncrementalPFI on float inputs against an INDEPENDENT exact reference (not the implementation itself): the
    imputer spy gives the model inputs of every evaluation; predictions, losses, contributions and the running
    statistic are recomputed in exact rational arithmetic from those float inputs."""
    from ixai.explainer import IncrementalPFI
    from ixai.storage import BatchStorage
    from ixai.imputer import MarginalImputer
    from ixverif.spies import EventLog, make_imputer_spy
    from ixverif.refmodels import running
    names = ['a', 'b', 'c']
    off = float(offset)

    def model_g(x, one):
        return {'output': one * off + 2 * x['a'] - x['b'] * x['c'] + x['c'] / 8}

    def loss_g(y, p, one):
        d = y - p['output']
        return d * d + one * off

    log = EventLog()

    def model(x):
        if isinstance(x, dict):
            log.add('model', dict(x), None)
            return model_g(x, 1.0)
        return [model(r) for r in x]
    storage = BatchStorage(store_targets=False)
    imp = make_imputer_spy(MarginalImputer(model, 'joint', storage), log)
    ex = IncrementalPFI(model, lambda y, p: loss_g(y, p, 1.0), list(names), storage=storage, imputer=imp,
                        n_inner_samples=2, dynamic_setting=dynamic, smoothing_alpha=float(alpha))
    contribs = {n: [] for n in names}
    checked = 0
    maxl = [1.0]

    def driver(run_):
        nonlocal checked
        for t in range(n_obs):
            a = ((t * 7919) % 101) / 101.0
            b = ((t * 104729) % 97) / 97.0 - 0.5
            c = ((t * 31) % 7) / 7.0
            x = {'a': a, 'b': b, 'c': c}
            y = off + 2.0 * a - b
            mark = log.mark()
            vals = ex.explain_one(dict(x), y, **({'n_inner_samples': 3} if t % 3 == 2 else {}))
            if t == 0:
                continue
            xe = {k: F(v) for k, v in x.items()}
            base = loss_g(F(y), model_g(xe, 1), 1)
            for ev in log.since(mark):
                if ev[0] != 'impute':
                    continue
                feat = next(iter(ev[1]))
                ls = [loss_g(F(y), model_g({k: F(v) for k, v in inp.items()}, 1), 1) for inp in ev[5]]
                maxl[0] = max([maxl[0]] + [abs(float(v)) for v in ls])
                contribs[feat].append(sum(ls) / len(ls) - base)
            for n in names:
                want = running(contribs[n], dynamic, F(float(alpha)))
                got = float(vals[n])
                tol = 64 * EPS * maxl[0] * (t + 1 if not dynamic else 1.0 / float(alpha))
                checked += 1
                if not math.isfinite(got) or abs(F(got) - want) > F(tol):
                    bad('pfi-vs-independent-reference',
                        f"IncrementalPFI (dynamic={dynamic}, alpha={alpha}, loss offset {offset:g}): importance of {n!r} after "
                        f"{t + 1} observations is {got!r}; exact arithmetic on the same float inputs (independent closed-form "
                        f"reference) gives {float(want)!r}; error {float(abs(F(got) - want)):.3e} > {tol:.3e}")
        return None
    run_, res, viol = choice.execute(driver, (), None, False)
    if viol is not None:
        raise viol
    return checked


def plan(tier):
    deep = tier == 'thorough'
    tasks = []
    alphabet = (1e9, 1e9 + 1, 1e9 - 1, 1e-8, -1e8, 0.1)
    L = 7 if deep else 6
    for first in alphabet:
        tasks.append(('short', alphabet, L, first))
    lengths = [1000, 10000, 100000] + ([1000000] if deep else [])
    for mag in (1e-8, 1.0, 1e8):
        for off in (0.0, 1e6, 1e9):
            for ordering in ('ascending', 'descending', 'alternating', 'constant-then-jump', 'jump-then-constant',
                             'jump-then-noise'):
                for n in lengths:
                    tasks.append(('long-welford', mag, off, ordering, n))
                    for alpha in (1e-3, 0.1, 1.0):
                        if n <= 100000 and (n == 10000 or alpha == 0.1):
                            tasks.append(('long-es', mag, off, ordering, n, alpha))
    for base in (1 / 16, 0.3, 1.0, 'welford'):
        for pattern in ('big-then-small', 'small-then-big', 'eras'):
            tasks.append(('long-multi', base, pattern, 2000 if not deep else 20000))
    for expl in ('pfi', 'sage'):
        for dynamic, alpha in ((False, 0.5), (True, 0.1), (True, 0.001), (True, 1.0)):
            for offset in (0.0, 1e3, 1e6):
                tasks.append(('explainer', expl, dynamic, alpha, offset, 120 if not deep else 300))
    tasks.sort(key=lambda t: -(t[4] if t[0] in ('long-welford', 'long-es') else 50000))
    return tasks


def main(rep):
    tasks = plan(rep.tier)
    results = choice.pmap(run_task, tasks, chunksize=1)
    for r in results:
        rep.add(evaluations=r['n'])
        for key, what in r['violations']:
            rep.violation(key, what, {'task': r['task']})
        rep.mark_nontrivial(r['outcomes'])
    for kind in ('short', 'long-welford', 'long-es', 'explainer'):
        ex = next((r for r in results if r['task'][0] == kind), None)
        if ex:
            rep.sample({'kind': kind, 'task': ex['task'], 'checkpoints': ex['n']})
    rep.note(tasks=len(tasks), constant=C)
    rep.assume("long streams continue on a pickle round trip of the tracker after n/3 values and on a deep copy after 2n/3 "
               "(checkpoint / restore); the short streams copy the tracker at every step",
               "'a small multiple' is read as 8 (classical bounds: n u kappa for Welford's variance, about n u for the "
               "mean, u = eps/2); explainer runs within 64 eps scale t (static) / 64 eps scale / alpha (dynamic)",
               "the bounds are checked on the enumerated streams only - not a proof for all streams up to 1e6")
    return rep.finish(
        rule="all float streams up to length 6 (7) over a 6-letter ill-conditioned alphabet (every prefix) + enumerated "
             "family magnitude x offset x ordering x length x alpha + explainer runs vs exact arithmetic on the same inputs; "
             "non-trivial = distinct stream / run descriptors completed")


def replay(data):
    t = data['replay']['task']
    for task in plan('thorough') + plan('quick'):
        if [str(x) for x in task] == t:
            r = run_task(task)
            if r['violations']:
                print(f"VIOLATION property={PID} replay=(reproduced)\n  {r['violations'][0][1]}")
                return 1
            print("replay: no violation on the current tree")
            return 0
    print("HARNESS-ERROR: task not found")
    return 2
