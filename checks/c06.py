"""C06 – imputers replace exactly the requested features with genuine background values.

Driver A (product): instance x every subset of 3 features x container type (list, tuple, set, frozenset,
dict-keys view) x storage kind x number of stored rows x sampling strategy x n_samples x ALL outcomes of
the row draws; DefaultImputer with a defaults dict.
Driver B (histories): every sequence of length <= L of operations {update with one of 4 observation
objects (re-delivery of the same object included), impute} on Interval / Geometric(p=1) / Uniform /
Batch storages x all draw outcomes, so that imputations happen after evictions and in-place replacements.
Oracle (model-call log + return value) after every impute: inputs agree with x outside the subset; inside
they carry the value of a CURRENTLY stored row (one row for the whole subset under 'joint'); exactly
n_samples predictions, each the model's output for a logged input; x, the subset and the storage unchanged.
"""
import itertools
from fractions import Fraction as F

from ixverif import choice
from ixverif.choice import Violation
from ixverif.refmodels import dict_eq
from ixverif.spies import EventLog, Model

LEVEL = 'model_checking'
PID = 'C06'
NAMES = ['a', 'b', 'c']
CONTAINERS = ['list', 'tuple', 'set', 'frozenset', 'dict_keys', 'ndarray']


def row(i):
    return {'a': F(10 * i + 1), 'b': F(10 * i + 2, 3), 'c': F(-(10 * i + 3))}


X = {'a': F(-7, 2), 'b': F(100), 'c': F(1, 9)}
DEFAULTS = {'a': F(55), 'b': F(-66), 'c': F(77, 2)}


def zero():
    return F(0)


def sparse_row(i):
    """A stored observation given as a sparse collections.defaultdict (absent feature = default value 0): row i lacks one
    feature. Looking a value up must never insert the key into the STORED object."""
    import collections
    r = row(i)
    del r[NAMES[i % 3]]
    return collections.defaultdict(zero, r)


def container(kind, subset):
    if kind == 'list':
        return list(subset)
    if kind == 'tuple':
        return tuple(subset)
    if kind == 'set':
        return set(subset)
    if kind == 'frozenset':
        return frozenset(subset)
    if kind == 'ndarray':       # a legal iterable (e.g. names selected with a boolean mask); its truth value is NOT "non-empty"
        import numpy as np
        return np.array(sorted(subset), dtype=str if subset else object)
    return {k: None for k in subset}.keys()


def make_storage(kind, size):
    import ixai.storage as s
    if kind == 'Batch':
        return s.BatchStorage(store_targets=True)
    if kind == 'Interval':
        return s.IntervalStorage(size=size, store_targets=True)
    if kind == 'Sequence':
        return s.SequenceStorage(store_targets=False)
    if kind == 'Uniform':
        return s.UniformReservoirStorage(size=size, store_targets=False)
    if kind == 'Geometric':
        return s.GeometricReservoirStorage(size=size, store_targets=True, constant_probability=1.0)
    raise ValueError(kind)


def make_imputer(strategy, model, storage):
    from ixai.imputer import MarginalImputer, DefaultImputer
    if strategy == 'default':
        return DefaultImputer(model, values=dict(DEFAULTS))
    return MarginalImputer(model, strategy, storage)


def check_impute(cfgdesc, imputer, model, log, storage, strategy, subset_names, ckind, n, n_kw=True, sparse=False):
    """Run one impute call on the real imputer and apply the oracle. Returns rows used (indices).
    sparse: the instance lacks the first requested feature (it must then come from the background)."""
    x = dict(X)
    if sparse and subset_names:
        del x[sorted(subset_names)[0]]
    x_before = dict(x)
    sub = container(ckind, subset_names)
    sub_before = list(sub)
    rows_before = None
    ids_before = None
    if storage is not None:
        xs, ys = storage.get_data()
        rows_before = [dict(r) for r in list(xs)]
        import copy as _copy
        rows_lookup = [_copy.copy(r) for r in list(xs)]     # same mapping type (a sparse defaultdict answers with its default)
        ids_before = [id(r) for r in list(xs)]
        ys_before = list(ys)
    mark = log.mark()
    if n_kw:
        preds = imputer.impute(feature_subset=sub, x_i=x, n_samples=n)
    else:
        preds = imputer.impute(sub, x, n)
    inputs = [e[1] for e in log.since(mark) if e[0] == 'model']
    where = (f"{type(imputer).__name__}[{cfgdesc}] impute(feature_subset={ckind}{sorted(subset_names)}, "
             f"n_samples={n}) with stored rows {rows_before}")

    def bad(key, what):
        raise Violation(f"{PID}/{key}", f"{where}: {what}", {})
    used = set()
    S = set(subset_names)
    for inp in inputs:
        if set(inp.keys()) != set(x_before.keys()) | S:
            bad('input-keys', f"model input {inp} must carry the instance's features and the requested subset {sorted(S)}")
        order = [k for k in inp.keys() if k in x_before]
        if order != list(x_before.keys()):
            # a model may read the features positionally (the library's own SklearnWrapper / TorchWrapper do so when no
            # feature names are given): the instance's key order must survive the imputation
            bad('key-order', f"model input {inp} does not keep the key order of the instance {list(x_before.keys())}")
        for name in NAMES:
            if name not in S and not (inp[name] == x_before[name]):
                bad('outside-subset-changed', f"model input {inp} differs from the instance in {name!r}, which is not "
                                              f"in the requested subset")
        if not S:
            continue
        if strategy == 'default':
            for name in S:
                if not (inp[name] == DEFAULTS[name]):
                    bad('not-default', f"model input {inp}: {name!r} is not the configured default {DEFAULTS[name]}")
        elif strategy == 'joint':
            match = [i for i, r in enumerate(rows_lookup) if all(inp[name] == r[name] for name in S)]
            if not match:
                bad('not-from-storage', f"model input {inp}: the values of {sorted(S)} are not those of one currently "
                                        f"stored observation")
            used.update(match)
        else:
            for name in S:
                match = [i for i, r in enumerate(rows_lookup) if inp[name] == r[name]]
                if not match:
                    bad('not-from-storage', f"model input {inp}: the value of {name!r} does not occur in a currently "
                                            f"stored observation")
                used.update((i, name) for i in match)
    if not isinstance(preds, list) and not isinstance(preds, tuple):
        preds = list(preds)
    if len(preds) != n:
        bad('n-predictions', f"returned {len(preds)} predictions, expected {n}")
    if not inputs:
        bad('no-evaluation', "the model was not evaluated")
    for i, p in enumerate(preds):
        cands = [inputs[i]] if len(inputs) == n else inputs
        if not any(dict_eq(dict(p), model.f(c)) for c in cands):
            bad('prediction', f"prediction {i} = {p} is not the model output for the logged input(s) {cands}")
    if not S:
        for p in preds:
            if not dict_eq(dict(p), model.f(x_before)):
                bad('empty-subset', f"empty subset must return the unperturbed prediction, got {p}")
    if x != x_before or list(x.keys()) != list(x_before.keys()):
        bad('instance-modified', f"the instance was modified to {x}")
    if type(sub) is not type(container(ckind, subset_names)) or list(sub) != sub_before:
        bad('subset-modified', f"the subset container was modified to {list(sub)!r}")
    if storage is not None:
        xs, ys = storage.get_data()
        if [id(r) for r in list(xs)] != ids_before or [dict(r) for r in list(xs)] != rows_before \
                or list(ys) != ys_before:
            bad('storage-modified', f"the storage content changed to {[dict(r) for r in list(xs)]}")
    return used


# ------------------------------------------------------------------------------------------ driver A
def plan(tier):
    tasks = []
    ns = (1, 2, 3) if tier == 'thorough' else (1, 2)
    for skind in ('Batch', 'Interval', 'Uniform', 'Geometric', 'Sequence'):
        for r in (1, 2, 3):
            if skind == 'Sequence' and r > 1:
                continue
            for strategy in ('joint', 'product'):
                for n in ns:
                    tasks.append(('A', dict(storage=skind, rows=r, strategy=strategy, n=n)))
    # (sparse collections.defaultdict rows - rowtype='defaultdict' - are NOT part of the plan: whether a Mapping whose reads
    # can insert keys keeps its semantics inside the library is outside the properties; two behaviour-preserving
    # refactorings, R3, R8 and R12, treat such rows differently from the unchanged tree. See DESIGN 9.4.)
    for n in ns:
        tasks.append(('A', dict(storage=None, rows=0, strategy='default', n=n)))
    deep = tier == 'thorough'
    for skind, size, L in (('Interval', 2, 6 if deep else 5), ('Geometric', 3, 4),
                           ('Uniform', 3, 4), ('Batch', None, 5 if deep else 4),
                           ('Interval', 1, 5 if deep else 4), ('Geometric', 2, 5 if deep else 4)):
        for strategy in ('joint', 'product'):
            tasks.append(('B', dict(storage=skind, size=size, strategy=strategy, L=L, pool=4 if deep else 3)))
            if size and size > 1:       # also start from a full storage (non-initial start state)
                tasks.append(('B', dict(storage=skind, size=size, strategy=strategy,
                                        L=(L - 1 if skind == 'Uniform' else L), pool=4 if deep else 3,
                                        prefill=True)))
    tasks.append(('D', dict(kind='default-edit')))
    tasks.sort(key=lambda t: 0 if t[0] == 'B' else 1)
    return tasks


def driver_a(cfg):
    subsets = [list(c) for k in range(4) for c in itertools.combinations(NAMES, k)]

    def driver(run):
        log = EventLog()
        model = Model(NAMES, 'multi', None, log)
        storage = None
        if cfg['storage'] is not None:
            storage = make_storage(cfg['storage'], 3)
            for i in range(cfg['rows']):
                storage.update(row(i) if cfg.get('rowtype') != 'defaultdict' else sparse_row(i), i)
        imputer = make_imputer(cfg['strategy'], model, storage)
        S = subsets[run.choose(len(subsets), 'subset', None, 0)]
        ck = CONTAINERS[run.choose(len(CONTAINERS), 'container', None, 0)]
        sparse = bool(S) and bool(run.choose(2, 'sparse-instance', None, 0))
        used = check_impute(desc(cfg), imputer, model, log, storage, cfg['strategy'], S, ck, cfg['n'],
                            n_kw=(len(S) % 2 == 0), sparse=sparse)
        return frozenset(used), (tuple(S), ck, sparse)
    return driver


def desc(cfg):
    return ', '.join(f"{k}={v}" for k, v in cfg.items())


def default_edit_check():
    """DefaultImputer: impute(S); the configured defaults are changed (in place and by re-assignment); impute(S) again -
    the model must see the CURRENT defaults."""
    from ixai.imputer import DefaultImputer
    n = 0
    for how in ('in-place', 'reassign'):      # through the imputer's own public attribute only
        for S in (['a'], ['a', 'b'], ['c', 'a']):
            log = EventLog()
            model = Model(NAMES, 'scalar', None, log)
            given = dict(DEFAULTS)
            imp = DefaultImputer(model, values=given)
            imp.impute(feature_subset=list(S), x_i=dict(X), n_samples=1)
            new = {k: v + 1000 for k, v in DEFAULTS.items()}
            if how == 'in-place':
                for k, v in new.items():
                    imp.values[k] = v
            elif how == 'constructor-dict':
                given.update(new)
            else:
                imp.values = dict(new)
            mark = log.mark()
            imp.impute(feature_subset=set(S), x_i=dict(X), n_samples=2)
            n += 1
            for e in log.since(mark):
                if e[0] == 'model':
                    for f in S:
                        if not (e[1][f] == new[f]):
                            raise Violation(f"{PID}/stale-default", f"DefaultImputer: after the defaults were changed "
                                            f"({how}) to {new}, impute({S}) evaluated the model on {e[1]} (feature {f!r} is not "
                                            f"the configured default)", {})
    return n


# ------------------------------------------------------------------------------------------ driver B
def driver_b(cfg):
    objs = [row(i) for i in range(cfg.get('pool', 4))]
    subsets = [['a', 'b'], ['c'], ['a', 'b', 'c']]

    def driver(run):
        log = EventLog()
        model = Model(NAMES, 'scalar', None, log)
        storage = make_storage(cfg['storage'], cfg['size'])
        imputer = make_imputer(cfg['strategy'], model, storage)
        pool = [dict(o) for o in objs]          # the same dict objects may be delivered repeatedly
        trace = []
        for j in range(cfg['size'] if cfg.get('prefill') else 1):
            storage.update(pool[j % len(pool)], j)
            trace.append(f"U{j % len(pool)}")
        n_imp = 0
        used = set()
        for step in range(cfg['L']):
            op = run.choose(len(pool) + 1, 'op', None, 0)
            if op < len(pool):
                storage.update(pool[op], op)
                trace.append(f"U{op}")
            else:
                S = subsets[n_imp % len(subsets)]
                u = check_impute(desc(cfg) + f", history {'.'.join(trace)}", imputer, model, log, storage,
                                 cfg['strategy'], S, 'set' if n_imp % 2 else 'list', 1 + (n_imp % 2))
                used.update(u)
                n_imp += 1
                trace.append('I')
        return frozenset(used), tuple(trace)
    return driver


def grid_for(cfg):
    return ((0.5, 0.05), None) if cfg.get('storage') == 'Uniform' else ((0.5,), None)


def split(task):
    part, cfg = task
    if part in ('A', 'D'):
        return [(part, cfg, ())]
    g = grid_for(cfg)
    return [(part, cfg, r) for r in choice.frontier(driver_b(cfg), 2 + (cfg['size'] or 1) * 0, lambda i: g)]


def run_task(task):
    part, cfg, root = task
    if part == 'D':
        try:
            n = default_edit_check()
            return dict(task=(part, cfg), executions=n, violations=[], used=set(), cases=n, unscripted=0)
        except Violation as v:
            return dict(task=(part, cfg), executions=1, violations=[(v.key, v.what, {}, ())], used=set(), cases=0, unscripted=0)
    used, cases = set(), set()

    def on_leaf(run, res):
        used.update(res[0])
        cases.add(res[1])
    drv = driver_a(cfg) if part == 'A' else driver_b(cfg)
    grid = grid_for(cfg)
    st = choice.explore(drv, on_leaf=on_leaf, bound=None, root=root, float_policy=lambda i: grid)
    return dict(task=(part, cfg), executions=st.executions, violations=st.violations, used=used, cases=len(cases),
                unscripted=st.unscripted)


def main(rep):
    tasks = plan(rep.tier)
    sub = [t for task in tasks for t in split(task)]
    raw = choice.pmap(run_task, sub, chunksize=1)
    merged = {}
    for r in raw:
        k = repr(r['task'])
        if k not in merged:
            merged[k] = r
        else:
            m = merged[k]
            m['executions'] += r['executions']
            m['violations'] += r['violations']
            m['used'] |= r['used']
            m['cases'] += r['cases']
            m['unscripted'] += r['unscripted']
    results = list(merged.values())
    states = 0
    for r in results:
        part, cfg = r['task']
        rep.add(evaluations=r['executions'], traces_validated_against_impl=r['executions'])
        rep.unscripted += r['unscripted']
        for key, what, detail, prefix in r['violations']:
            rep.violation(key, what, {'task': [part, cfg], 'prefix': list(prefix)})
        if r['violations']:
            continue
        if part == 'A' and cfg['strategy'] == 'joint':
            if {i for i in r['used'] if isinstance(i, int)} != set(range(cfg['rows'])):
                raise choice.HarnessError(f"non-vacuity: {desc(cfg)}: rows selected {r['used']}")
        states += r['cases']
        rep.mark_nontrivial([(part, desc(cfg), i) for i in range(r['cases'])])
        if len(rep.samples) < 4 and (part == 'B' or cfg.get('rows') == 3):
            rep.sample({'driver': part, 'config': cfg, 'executions': r['executions'],
                        'distinct (subset, container) cases / operation histories': r['cases']})
    rep.add(states=max(1, states), transitions=rep.counts['evaluations'])
    rep.note(tasks=len(tasks))
    rep.assume("rows are pairwise distinct in every feature, so the stored row an imputed value stems from is "
               "identified", "subset containers are re-iterable (list, tuple, set, frozenset, dict keys view, NumPy array)",
               "the storage is non-empty at impute time")
    return rep.finish(
        rule="A: full product incl. all draw outcomes; B: all operation histories up to length L x all draw "
             "outcomes; non-trivial = distinct (config, subset+container) cases and distinct operation histories; "
             "states = same count; transitions = executions")


def replay(data):
    r = data['replay']
    part, cfg = r['task']
    if part == 'D':
        res = run_task((part, cfg, ()))
        if res['violations']:
            print(f"VIOLATION property={PID} replay=(reproduced)\n  {res['violations'][0][1]}")
            return 1
        print('replay: no violation on the current tree')
        return 0
    drv = driver_a(cfg) if part == 'A' else driver_b(cfg)
    g = grid_for(cfg)
    run, res, viol = choice.execute(drv, tuple(r['prefix']), lambda i: g)
    run2, res2, viol2 = choice.execute(drv, tuple(r['prefix']), lambda i: g)
    if (viol is None) != (viol2 is None):
        print("HARNESS-ERROR: replay not deterministic")
        return 2
    if viol:
        print(f"VIOLATION property={PID} replay=(reproduced)\n  {viol.what}")
        return 1
    print("replay: no violation on the current tree")
    return 0
