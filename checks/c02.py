"""C02 – IncrementalPFI equals its closed form on every prefix.

Same driver and configuration product as C03, with IncrementalPFI (models with and without an ignored
feature).  Reference: for each feature the mean loss over the n predictions returned by the imputer
for the single-feature subset minus the loss of the unperturbed prediction; importance and variance are
the closed-form running statistics; compared exactly (rationals) after every call.
"""
from fractions import Fraction as F

from ixverif import choice
from ixverif.choice import Violation
from ixverif.refmodels import dict_eq, running
from checks import sage_common as sc
from checks import c03

LEVEL = 'model_checking'
PID = 'C02'


def plan(tier):
    T = 3
    deep = tier == 'thorough'
    tasks = []
    for cfg in sc.product_configs('pfi', tier):
        base = cfg['alpha'] == F(1, 4) and cfg['n_inner'] < 3 and cfg['storage'] in ('Batch', 'Uniform', 'Geometric') \
            and cfg['names'] != 'float'
        if cfg['storage'] == 'libdefault' and cfg['imputer'] != 'default':
            continue        # the reference needs the imputer spy, which needs an explicit storage object
        if sc.is_core(cfg):
            tasks.append((cfg, T + 1 if deep else T, None, False, 3))
        else:
            bound = 2 if (deep and base and cfg['d'] == 3 and cfg['n_inner'] == 2 and cfg['imputer'] == 'joint'
                          and cfg['names'] == 'str') else 1
            tasks.append((cfg, T, bound, True, 3 if (deep and base and bound == 1) else 2))
    # long streams (5 observations, 4 explained) around the two base executions: state carried over several steps
    for cfg in sc.product_configs('pfi', 'quick'):
        if cfg['d'] == 2 and cfg['n_inner'] == 1 and cfg['storage'] == 'Batch' and cfg['names'] == 'str' \
                and cfg['imputer'] in ('joint', 'default'):
            tasks.append((cfg, 5 if not deep else 6, 0, False, 2))
            if cfg['imputer'] == 'joint' and cfg['model'] == 'scalar':
                # capacity-bounded storages far beyond their capacity (evictions / in-place replacements between calls)
                for st in ('Interval', 'Sequence', 'Geometric'):
                    tasks.append((dict(cfg, storage=st), 5, 1 if st == 'Geometric' else 0, False, 2))
    # a model that returns one pre-allocated output dict, overwritten in place at every call: predictions the explainer
    # keeps by reference must have been consumed before the model is called again
    for cfg in sc.buffer_configs('pfi'):
        tasks.append((cfg, 4, 1 if cfg['storage'] == 'Geometric' else 0, False, 2))
    tasks.sort(key=lambda t: -(t[2] or 0))
    return tasks


class PfiRef:
    def __init__(self, cfg, h):
        self.cfg, self.h = cfg, h
        self.dyn, self.alpha = cfg['dynamic'], cfg['alpha']
        self.contribs = {n: [] for n in h.names}
        self.sqdev = {n: [] for n in h.names}
        self.explained = 0
        self.orders = set()
        self.labelsets = set()
        self.nonzero = set()

    def bad(self, key, what, t):
        raise Violation(f"{PID}/{key}", f"IncrementalPFI[{sc.cfg_desc(self.cfg)}] call {t + 1}: {what}",
                        {'cfg': self.cfg})

    def step(self, t, x, y, ret, events, n_expected, kw=None):
        h, names, ex = self.h, self.h.names, self.h.expl
        imputes = [e for e in events if e[0] == 'impute']
        if t == 0:
            if imputes or any(e[0] == 'model' for e in events):
                self.bad('first-call', "the first observation must only seed the storage, but the model / imputer "
                                       "was evaluated", t)
            if not dict_eq(dict(ret), {}) or not dict_eq(ex.importance_values, {}):
                self.bad('first-call-values', f"importance values after the first call are {ret}", t)
            stored = sc_rows(h)
            if (kw or {}).get('update_storage') is False or stored is None:
                return
            if not stored or not dict_eq(stored[-1], x) or (len(stored) != 1 and not getattr(h, 'prefilled', False)):
                self.bad('first-call-storage', f"the first observation must seed the storage; it holds {stored}", t)
            return
        yhat = h.model.f(x)
        self.labelsets.add(frozenset(yhat))
        base = h.loss.f(y, yhat)
        contrib = {}
        for (_, subset, x_copy, n_samples, preds, inputs) in imputes:
            if len(subset) != 1:
                self.bad('subset', f"imputer asked for subset {sorted(subset, key=repr)}; PFI replaces exactly one "
                                   f"feature at a time", t)
            feat = next(iter(subset))
            feat = next(n for n in names if n == feat)
            if feat in contrib:
                self.bad('subset-twice', f"feature {feat!r} imputed twice", t)
            if n_samples != n_expected or len(preds) != n_expected:
                self.bad('n-inner', f"feature {feat!r}: imputer asked for {n_samples} samples and returned "
                                    f"{len(preds)}, expected {n_expected}", t)
            if not dict_eq(x_copy, x):
                self.bad('x-passed', f"imputer received x_i={x_copy}, expected {x}", t)
            for inp in inputs:
                sc.check_input_shape(self, inp, x, subset, t, f"feature {feat!r}")
                for n in names:
                    if n != feat and not (inp[n] == x[n]):
                        self.bad('other-feature-changed', f"model input {inp} differs from x in feature {n!r} while "
                                                          f"only {feat!r} is replaced", t)
            losses = [h.loss.f(y, p) for p in preds]
            contrib[feat] = sum(losses) / len(losses) - base
        if set(contrib) != set(names):
            self.bad('features', f"features imputed {sorted(contrib, key=repr)}, expected all of {names}", t)
        self.explained += 1
        self.orders.add(tuple(sorted((repr(k), v) for k, v in contrib.items())))
        for n in names:
            self.contribs[n].append(contrib[n])
            if contrib[n] != 0:
                self.nonzero.add(contrib[n])
        imp = {n: running(self.contribs[n], self.dyn, self.alpha) for n in names}
        for n in names:
            dv = contrib[n] - imp[n]
            self.sqdev[n].append(dv * dv)
        var = {n: running(self.sqdev[n], self.dyn, self.alpha) for n in names}
        got = ex.importance_values
        if not dict_eq(got, imp):
            self.bad('importance', f"importance_values={sc.fmt(got)} reference={sc.fmt(imp)} "
                                   f"(contributions {sc.fmt(contrib)})", t)
        if not dict_eq(dict(ret), imp):
            self.bad('return-value', f"explain_one returned {sc.fmt(ret)}, reference {sc.fmt(imp)}", t)
        if not dict_eq(ex.variances, var):
            self.bad('variance', f"variances={sc.fmt(ex.variances)} reference={sc.fmt(var)}", t)
        ign = self.cfg.get('ignored')
        if ign is not None:
            v = got[names[ign]]
            if v != 0:
                self.bad('ignored-feature', f"feature {names[ign]!r} is ignored by the model but has importance {v}", t)


def sc_rows(h):
    from ixverif.explharness import storage_rows
    return storage_rows(h)


def make_oracle(cfg, h):
    ref = PfiRef(cfg, h)

    def oracle(t, x, y, ret, events, n_exp, kw):
        ref.step(t, x, y, ret, events, n_exp, kw)
    oracle.ref = ref
    return oracle


def run_task(task):
    cfg, T, bound, options, asize = task
    labelsets, states, nonzero = set(), set(), set()
    trans = [0]

    def on_leaf(run, oracle):
        ref = oracle.ref
        labelsets.update(ref.labelsets)
        nonzero.update(ref.nonzero)
        trans[0] += ref.explained
        states.add(hash(tuple(sorted((repr(k), tuple(v)) for k, v in ref.contribs.items()))))
    drv = sc.stream_driver(cfg, T, make_oracle, asize, options)
    st = choice.explore(drv, on_leaf=on_leaf, bound=bound)
    dl = False
    if bound is not None and not st.violations:
        st2 = choice.explore(drv, on_leaf=on_leaf, bound=bound, default_last=True)
        st.merge(st2)
        dl = bool(st2.violations)
    return dict(cfg=cfg, T=T, bound=bound, asize=asize, executions=st.executions, violations=st.violations,
                default_last=dl, labelsets=labelsets, states=states, transitions=trans[0], nonzero=len(nonzero),
                unscripted=st.unscripted)


def main(rep):
    tasks = plan(rep.tier)
    results = choice.pmap(run_task, tasks, chunksize=4)
    states = set()
    for r in results:
        cfg = r['cfg']
        rep.add(evaluations=r['executions'], traces_validated_against_impl=r['executions'],
                transitions=r['transitions'])
        rep.unscripted += r['unscripted']
        states |= r['states']
        for key, what, detail, prefix in r['violations']:
            rep.violation(key, what, {'cfg': cfg, 'T': r['T'], 'bound': r['bound'], 'asize': r['asize'],
                                      'prefix': list(prefix), 'default_last': r['default_last']})
        if r['violations']:
            continue
        if r['nonzero'] < 2 and not (cfg['d'] == 1 and cfg.get('ignored') is not None):
            raise choice.HarnessError(f"non-vacuity: {sc.cfg_desc(cfg)}: {r['nonzero']} distinct non-zero contributions")
        rep.mark_nontrivial([(sc.cfg_desc(cfg), i) for i in range(min(50, r['nonzero']))])
        if len(rep.samples) < 3 and cfg['d'] == 3 and cfg['n_inner'] == 2:
            rep.sample({'config': sc.cfg_desc(cfg), 'stream_length': r['T'], 'deviation_bound': r['bound'],
                        'executions': r['executions'], 'distinct_nonzero_contributions': r['nonzero']})
    if not rep.samples:
        rep.sample({'config': sc.cfg_desc(results[0]['cfg'])})
    rep.add(states=max(1, len(states)))
    rep.note(configs=len(tasks))
    rep.assume("losses and model outputs are exact rationals", "storage non-empty at impute time")
    return rep.finish(
        rule="config product x all streams x draws (full for core configs; deviation-bounded around two base "
             "executions otherwise); non-trivial = distinct (config, non-zero per-observation contribution) capped "
             "at 50 per config; states = distinct contribution histories; transitions = explained observations")


def replay(data):
    r = data['replay']
    cfg = c03.fix_cfg(r['cfg'])
    out = []
    for _ in range(2):
        run, res, viol = choice.execute(sc.stream_driver(cfg, r['T'], make_oracle, r.get('asize', 3),
                                                         r['bound'] is not None),
                                        tuple(r['prefix']), default_last=bool(r.get('default_last')))
        out.append((viol.key, viol.what) if viol else None)
    if out[0] != out[1]:
        print("HARNESS-ERROR: replay not deterministic")
        return 2
    if out[0]:
        print(f"VIOLATION property={PID} replay=(reproduced)\n  {out[0][1]}")
        return 1
    print("replay: no violation on the current tree")
    return 0
