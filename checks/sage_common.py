"""Shared driver + independent reference for the IncrementalSage checks (C01, C03, C16, C17)."""
import itertools
import sys
from fractions import Fraction as F

from ixverif import choice
from ixverif.choice import Violation
from ixverif.explharness import Harness, alphabet
from ixverif.refmodels import MultiRef, dict_eq, mean_prediction, running

EPS = sys.float_info.epsilon


def cfg_desc(cfg):
    keys = ('expl', 'dynamic', 'alpha', 'n_inner', 'd', 'storage', 'imputer', 'names', 'lbib', 'model',
            'loss', 'ignored', 'oscale', 'buffer')
    return ', '.join(f"{k}={cfg[k]}" for k in keys if k in cfg)


def product_configs(expl, tier, models=('scalar', 'multi'), wide=False):
    """The configuration product of DESIGN.md section 4. Quick: full product of reduced value sets. Thorough: the
    quick product plus every one-dimension extension of it by the remaining values (alpha 1/2 and 1, n_inner 3,
    storages Interval / Sequence / library default, float names) – the full cross product of all value sets
    (27k configs x 27 streams x draws) is out of reach (about a core-day)."""
    base = dict(alphas=[F(1, 4)], ninner=[1, 2], storages=['Batch', 'Uniform', 'Geometric'],
                imputers=['joint', 'product', 'default'], names=['str', 'int'])
    sets = [base]
    if tier == 'thorough' or wide:
        for key, extra in (('alphas', [F(1, 2), F(1)]), ('ninner', [3]), ('storages', ['Interval', 'Sequence', 'libdefault']),
                           ('names', ['float'])):
            sets.append(dict(base, **{key: extra}))
    out, seen = [], set()
    models = tuple(models) + (('swap',) if 'multi' in models else ())
    for vs in sets:
        for dyn, a, n, d, st, im, nm, model in itertools.product(
                [False, True], vs['alphas'], vs['ninner'], [1, 2, 3], vs['storages'], vs['imputers'], vs['names'], models):
            if not dyn and a != F(1, 4):
                continue            # alpha is irrelevant in the static mode
            if model == 'swap' and (im != 'joint' or nm != vs['names'][0]):
                continue            # label-swapping model: joint imputer / first name type only
            variants = [dict(lbib=False), dict(lbib=True)] if expl == 'sage' else \
                [dict(ignored=None), dict(ignored=0 if d == 1 else 1)]
            for var in variants:
                if expl == 'sage':
                    cfg = dict(expl='sage', dynamic=dyn, alpha=a, n_inner=n, d=d, storage=st, imputer=im, names=nm,
                               lbib=var['lbib'], model=model, loss='poly' if var['lbib'] else 'sq')
                else:
                    cfg = dict(expl='pfi', dynamic=dyn, alpha=a, n_inner=n, d=d, storage=st, imputer=im, names=nm,
                               model=model, loss='poly' if var['ignored'] is None else 'sq', ignored=var['ignored'])
                k = repr(sorted(cfg.items(), key=str))
                if k not in seen:
                    seen.add(k)
                    out.append(cfg)
    return out


def buffer_configs(expl):
    """Configurations whose model returns one pre-allocated output dict, overwritten in place at every call (n_inner = 1:
    with more inner samples the imputer itself would return the same object n times and no mean over them is defined)."""
    out = []
    for cfg in product_configs(expl, 'quick'):
        if cfg['n_inner'] == 1 and cfg['d'] >= 2 and cfg['storage'] in ('Batch', 'Geometric') and cfg['names'] == 'str' \
                and cfg['imputer'] in ('joint', 'default') and cfg['model'] in ('scalar', 'multi'):
            out.append(dict(cfg, buffer=True))
    return out


def is_core(cfg):
    return cfg['d'] <= 2 and cfg['n_inner'] == 1 and cfg['storage'] in ('Batch', 'Interval', 'Sequence')


class SageRef:
    """Independent reference of IncrementalSage's per-observation quantities and running statistics.
    The feature order is read off the imputer calls; predictions are the ones the imputer returned."""

    def __init__(self, cfg, h):
        self.cfg, self.h = cfg, h
        self.dyn, self.alpha = cfg['dynamic'], cfg['alpha']
        self.dir = 1 if cfg.get('lbib') else 0
        self.contribs = {n: [] for n in h.names}
        self.sqdev = {n: [] for n in h.names}
        self.model_losses = []
        self.marg_losses = []
        self.margpred = MultiRef(self.dyn, self.alpha)
        self.explained = 0
        self.orders = set()
        self.labelsets = set()

    def bad(self, key, what, t):
        raise Violation(f"{self.pid}/{key}", f"IncrementalSage[{cfg_desc(self.cfg)}] call {t + 1}: {what}",
                        {'cfg': self.cfg})

    pid = 'C03'

    def step(self, t, x, y, ret, events, n_expected, check_values=True):
        """Validate call t (0-based) against the reference. Returns the per-call contributions."""
        h, names = self.h, self.h.names
        ex = h.expl
        imputes = [e for e in events if e[0] == 'impute']
        if t == 0:
            if imputes or any(e[0] == 'model' for e in events):
                self.bad('first-call', "the first observation must only seed the storage, but the model / "
                                       "imputer was evaluated", t)
            if check_values and not dict_eq(dict(ret), {}):
                self.bad('first-call-values', f"importance values after the first call are {ret}, expected {{}}", t)
            return None
        if len(imputes) != len(names):
            self.bad('chain-length', f"{len(imputes)} imputer calls for {len(names)} features", t)
        yhat = h.model.f(x)
        self.labelsets.add(frozenset(yhat))
        self.margpred.update(yhat)
        mp = self.margpred.normalized()
        prev = h.loss.f(y, mp)
        marg_loss = prev
        model_loss = h.loss.f(y, yhat)
        remaining = set(names)
        order = []
        contrib = {}
        # the coalitions may be evaluated in any order (e.g. from the full coalition downwards): the chain is the
        # sequence of imputed subsets sorted by size, largest first
        imputes = sorted(imputes, key=lambda e: -len(e[1]))
        for s, (_, subset, x_copy, n_samples, preds, inputs) in enumerate(imputes):
            gone = [n for n in remaining if n not in subset]
            if len(gone) != 1 or not set(subset) <= remaining:
                self.bad('coalition', f"chain step {s + 1}: imputer was asked to impute {sorted(subset, key=repr)} "
                                      f"after {sorted(remaining, key=repr)} (exactly one feature must be revealed "
                                      f"per step and the complement of the coalition imputed)", t)
            feat = gone[0]
            remaining.discard(feat)
            order.append(feat)
            if n_samples != n_expected:
                self.bad('n-inner', f"imputer asked for {n_samples} samples, expected {n_expected}", t)
            if len(preds) != n_expected:
                self.bad('n-predictions', f"chain step {s + 1}: the coalition loss must use the mean of "
                                          f"{n_expected} inner model outputs, but the imputer returned "
                                          f"{len(preds)} predictions", t)
            if not dict_eq(x_copy, x):
                self.bad('x-passed', f"imputer received x_i={x_copy}, expected {x}", t)
            for inp in inputs:
                check_input_shape(self, inp, x, subset, t, f"chain step {s + 1}")
                for n in names:
                    if n not in subset and not (inp[n] == x[n]):
                        self.bad('revealed-feature-imputed', f"chain step {s + 1}: model input {inp} differs from "
                                                             f"x in revealed feature {n!r}", t)
            step_loss = h.loss.f(y, mean_prediction(preds))
            contrib[feat] = prev - step_loss
            prev = step_loss
        if remaining:
            self.bad('coalition-end', f"chain ended with {remaining} still imputed", t)
        self.orders.add(tuple(order))
        self.explained += 1
        self.model_losses.append(model_loss)
        self.marg_losses.append(marg_loss)
        for n in names:
            self.contribs[n].append(contrib[n])
        imp = {n: running(self.contribs[n], self.dyn, self.alpha) for n in names}
        for n in names:
            dv = contrib[n] - imp[n]
            self.sqdev[n].append(dv * dv)
        var = {n: running(self.sqdev[n], self.dyn, self.alpha) for n in names}
        if not check_values:
            return contrib
        got_imp = ex.importance_values
        if not dict_eq(got_imp, imp):
            self.bad('importance', f"importance_values={fmt(got_imp)} reference={fmt(imp)} "
                                   f"(order {order}, contributions {fmt(contrib)})", t)
        if not dict_eq(dict(ret), imp):
            self.bad('return-value', f"explain_one returned {fmt(ret)}, reference {fmt(imp)}", t)
        got_var = ex.variances
        if not dict_eq(got_var, var):
            self.bad('variance', f"variances={fmt(got_var)} reference={fmt(var)}", t)
        if not dict_eq(ex.marginal_prediction, mp):
            self.bad('marginal-prediction', f"marginal_prediction={fmt(ex.marginal_prediction)} "
                                            f"reference={fmt(mp)}", t)
        want_marg = running(self.marg_losses, self.dyn, self.alpha) + self.dir
        want_model = running(self.model_losses, self.dyn, self.alpha) + self.dir
        for name, got, want in (('marginal_loss', ex.marginal_loss, want_marg),
                                ('model_loss', ex.model_loss, want_model)):
            if not close(got, want):
                self.bad(name, f"{name}={got!r} reference={want} (={float(want)!r})", t)
        return contrib


def check_input_shape(ref, inp, x, subset, t, where):
    """A model input built for explaining x must be x with the features of `subset` replaced: the same keys in the same
    order (positional models - ixai's own wrappers without feature names - depend on the order) and every key outside the
    subset (explained feature or not) with x's own value."""
    if list(inp) != list(x):
        ref.bad('model-input-shape', f"{where}: the model was evaluated on an input with keys {list(inp)} but the explained "
                                     f"instance has keys {list(x)} (an imputed instance agrees with the explained instance "
                                     f"on everything outside the imputed subset, including keys that are not explained "
                                     f"features and the key order)", t)
    for k in x:
        if k not in subset and not (inp[k] == x[k]):
            ref.bad('model-input-shape', f"{where}: model input {inp} differs from the explained instance {x} in {k!r}, "
                                         f"which is not in the imputed subset {sorted(subset, key=repr)}", t)


def close(got, want, k=4):
    """Public float vs exact rational: equal within k ulp of max(1, |want|) (Fractions compare exactly)."""
    if isinstance(got, F) or isinstance(got, int):
        return got == want
    g = F(float(got))
    return abs(g - want) <= k * F(EPS) * max(1, abs(want))


def fmt(d):
    try:
        return '{' + ', '.join(f"{k!r}: {str(v)}" for k, v in d.items()) + '}'
    except AttributeError:
        return repr(d)


def check_background(cfg, h, t, x, events, rows_before):
    """Marginal imputers: every imputed value must be the value the feature has in a row that was in the storage when the
    call started (a stale cache of evicted rows is not 'the imputer')."""
    for e in events:
        if e[0] != 'impute':
            continue
        subset, inputs = e[1], e[5]
        for inp in inputs:
            if cfg['imputer'] == 'joint' and subset:
                if not any(all(inp[f] == r.get(f) for f in subset) for r in rows_before):
                    raise Violation(f"{CURRENT_PID()}/background-not-in-storage",
                                    f"{type(h.expl).__name__}[{cfg_desc(cfg)}] call {t + 1}: the imputed values of {sorted(subset, key=repr)} "
                                    f"in model input {inp} are not those of a row currently in the storage {rows_before}", {})
            else:
                for f in subset:
                    if not any(inp[f] == r.get(f) for r in rows_before):
                        raise Violation(f"{CURRENT_PID()}/background-not-in-storage",
                                        f"{type(h.expl).__name__}[{cfg_desc(cfg)}] call {t + 1}: imputed value of {f!r} in model "
                                        f"input {inp} does not occur in the storage {rows_before}", {})


def CURRENT_PID():
    return choice.CURRENT_PID[0]


def shaped(x, shape, t):
    """Observation dicts of one stream need not be uniform: shape 1 = the same keys in reversed insertion order (the test
    model then reads by position, as ixai's own wrappers do without feature names), shape 2 = an optional context key
    that is not an explained feature and that the model reads with a default. Model inputs built by the library must keep
    the explained instance's key order and context - never those of a background row."""
    if shape == 1:
        return dict(reversed(list(x.items())))
    if shape == 2:
        from ixverif.spies import Model
        return {**x, Model.CTX: F(7 + t)}
    return x


def stream_driver(cfg, T, make_oracle, alpha_size=3, options=False):
    """driver(run): every word of length T over the observation alphabet (driver choices, cost 0);
    optional per-call options as deviations (cost 1)."""
    def driver(run):
        h = Harness(cfg)
        letters = alphabet(h.names, cfg.get('model', 'scalar'), alpha_size)
        oracle = make_oracle(cfg, h)
        extra = bool(options and run.choose(2, 'extra-unexplained-key', None, 1))
        if extra:       # the observations carry a key that is not an explained feature (the model ignores it)
            letters = [({**x, 'zz_ctx': F(900 + i)}, y) for i, (x, y) in enumerate(letters)]
        if options and run.choose(2, 'warm-start-storage', None, 1):
            # the storage is filled through the public update_storage before the first explain_one; the first
            # explain_one must still only seed (count) and not explain
            xp, yp = letters[-1]
            h.expl.update_storage(dict(xp), yp)
            h.prefilled = True
        if options and cfg.get('ignored') is None:
            h.model.positional = True       # identical to by-name reading unless an input changes its key order
        for t in range(T):
            i = run.choose(len(letters), 'obs', None, 0)
            x, y = letters[i]
            x = shaped(x, run.choose(3, 'shape', None, 1) if options else 0, t)
            kw = {}
            n_exp = cfg['n_inner']
            # per-call options from the 2nd call on; with an imputer that does not read the explainer's storage
            # (DefaultImputer) update_storage=False is legal on every call, including the first
            if options and (t >= 1 or cfg['imputer'] == 'default'):
                o = run.choose(3, 'opt', None, 1)
                if o == 1:
                    n_exp = cfg['n_inner'] + 1
                    kw['n_inner_samples'] = n_exp
                elif o == 2:
                    kw['update_storage'] = False
            x_in = dict(x)
            from ixverif.explharness import storage_rows
            rows_before = storage_rows(h) if cfg['imputer'] in ('joint', 'product') else None
            ret, events = h.explain(x_in, y, **kw)
            if rows_before:
                check_background(cfg, h, t, x, events, rows_before)
            oracle(t, x, y, ret, events, n_exp, kw)
        return oracle
    return driver
