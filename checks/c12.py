"""C12 – MultiValueTracker: independent per-key statistics, zero-fill, safe normalising.

Explicit enumeration of every sequence (depth 3 quick / 4 thorough) of update dicts over the keys
{a, b, c} (each key absent / v1 / v2 – 36 letters incl. the empty dict, sign-mixed values so that zero sums
with non-zero entries occur) x base tracker (Welford, ES(1/2), ES(1), ES(1/4)) x numeric type (int, float,
Fraction, np.float64, np.float32, np.int64); one real update per transition on a deep copy, compared after
EVERY update with an independent per-key reference (values since first appearance, 0 when omitted).
"""
import copy
import itertools
import math
import sys
from fractions import Fraction as F

import numpy as np

from ixverif import choice
from ixverif.choice import Violation
from ixverif.refmodels import MultiRef

LEVEL = 'model_checking'
PID = 'C12'
EPS = sys.float_info.epsilon
TYPES = {'int': int, 'float': float, 'Fraction': F, 'np.float64': np.float64, 'np.float32': np.float32,
         'np.int64': np.int64}
KEYVALS = {'a': (1, -1), 'b': (-1, 2, 0), 'c': (3, -2)}      # b may also be supplied as exactly 0


KEY_FAMILIES = {'abc': ('a', 'b', 'c'), 'mixed': ('a', 0, ('x', 1))}   # str / int / tuple keys are not mutually orderable


def letters(family='abc'):
    out = []
    names = KEY_FAMILIES[family]
    for combo in itertools.product((None, 0, 1), (None, 0, 1, 2), (None, 0, 1)):
        d = {}
        for key, name, c in zip('abc', names, combo):
            if c is not None:
                d[name] = KEYVALS[key][c]
        out.append(d)
    return out


def fin(v):
    try:
        return math.isfinite(float(v))
    except Exception:
        return False


def same(a, b):
    return a == b or (a != a and b != b)


def check(tr, ref, tname, n_updates, where):
    def bad(key, what):
        raise Violation(f"{PID}/{key}", f"{where}: {what}", {})
    exact = tname == 'Fraction'
    eps = float(np.finfo(np.float32).eps) if tname == 'np.float32' else EPS
    got = dict(tr.get())        # a snapshot: the tracker may hand out a dict it keeps
    want = ref.get()
    if set(got.keys()) != set(want.keys()):
        bad('keys', f"keys {list(got)} but keys seen so far are {list(want)} (keys are never dropped)")
    if tr.N != n_updates:
        bad('N', f"N={tr.N} after {n_updates} updates")
    tol = 0 if exact else 16 * eps * 4 * max(1, n_updates)
    for k, w in want.items():
        g = got[k]
        if (g != w) if exact else not (fin(g) and abs(F(float(g)) - w) <= tol):
            bad('value', f"value of {k!r} is {g!r}, the base statistic of its values since it first appeared "
                         f"(0 when omitted) is {w} ({float(w)!r}); histories {ref.hist}")
    norm = dict(tr.get_normalized())
    if set(norm.keys()) != set(want.keys()):
        bad('norm-keys', f"normalised keys {list(norm)}")
    for k, v in norm.items():
        if not fin(v):
            bad('norm-nan-inf', f"get_normalized()[{k!r}] = {v!r} (raw values {got})")
    # reading is not writing: whatever was read in between (the normalised view, the call form, repr), the raw values
    # reported without an intervening update are the same
    for how, again in (('get() after get_normalized()', tr.get()), ('tracker() after get_normalized()', tr()),
                       ('get() after repr()', (repr(tr), tr.get())[1]),
                       ('get() after a second get_normalized()', (tr.get_normalized(), tr.get())[1])):
        if set(again.keys()) != set(got.keys()) or any(not same(again[k], got[k]) for k in got):
            bad('read-changes-values', f"{how} = {dict(again)} but get() had returned {dict(got)} and there was no update "
                                       f"in between")
    norm_again = tr.get_normalized()
    if set(norm_again.keys()) != set(norm.keys()) or any(not same(norm_again[k], norm[k]) for k in norm):
        bad('read-changes-values', f"get_normalized() = {dict(norm_again)} but had returned {dict(norm)} with no update in between")
    # the normalised view is judged against the tracker's OWN reported raw values (as exact rationals)
    raw = {k: (v if exact else F(float(v))) for k, v in got.items()}
    tot = sum(raw.values())
    if len(raw) <= 1:
        for k, w in raw.items():
            if (norm[k] != w) if exact else abs(F(float(norm[k])) - w) > tol:
                bad('norm-single', f"with at most one key the raw value {w} must be returned, got {norm[k]!r}")
    elif tot == 0:
        for k, v in norm.items():
            if not (v == 0):
                bad('norm-zero-sum', f"the values {got} sum to zero, so the normalised view must be all zeros, "
                                     f"but {k!r} is {v!r}")
    else:
        if not exact and abs(tot) <= 64 * eps * sum(abs(w) for w in raw.values()):
            return      # cancels to rounding level: zero or not depends on the summation order of the float type
        scale = max(abs(w) for w in raw.values()) / abs(tot)
        cond = sum(abs(w) for w in raw.values()) / abs(tot)
        ntol = 0 if exact else 64 * eps * max(1, scale) * (1 + cond)
        s = sum(F(float(v)) if not exact else v for v in norm.values())
        if abs(s - 1) > ntol * len(norm):
            bad('norm-sum', f"normalised values {norm} add up to {float(s)!r}, not 1 (raw {got})")
        for k, w in raw.items():
            v = norm[k] if exact else F(float(norm[k]))
            if abs(v - w / tot) > ntol:
                bad('norm-ratio', f"normalised value of {k!r} is {norm[k]!r}, expected {float(w / tot)!r} (raw {got})")


def run_task(task):
    from ixai.utils.tracker import MultiValueTracker, WelfordTracker, ExponentialSmoothingTracker
    base, tname, depth = task[:3]
    family = task[3] if len(task) > 3 else 'abc'
    conv = TYPES[tname]
    if len(task) > 4 and task[4] == 'tiny':
        # all values scaled by 1e-10: sums far below any absolute tolerance are still not zero
        conv = (lambda v, c=TYPES[tname]: c(v) * (F(1, 10 ** 10) if tname == 'Fraction' else c(1e-10)))
    rscale = F(1, 10 ** 10) if (len(task) > 4 and task[4] == 'tiny' and tname == 'Fraction') else \
        (F(float(TYPES[tname](1e-10))) if len(task) > 4 and task[4] == 'tiny' else 1)
    dyn = base != 'welford'
    alpha = None if not dyn else F(base)
    if tname in ('int', 'np.int64') and dyn and alpha not in (1,):
        a_impl = float(alpha)
    else:
        a_impl = alpha if tname == 'Fraction' else (float(alpha) if alpha is not None else None)

    def make():
        bt = WelfordTracker() if not dyn else ExponentialSmoothingTracker(alpha=a_impl)
        mv = MultiValueTracker(bt)
        if family == 'mixed':
            # the caller keeps using the tracker object it passed in: the per-key copies must be independent of it
            bt.update(conv(100))
            bt.update(conv(-50))
        return mv
    L = letters(family)
    n = [0]
    states = set()
    viol = []

    def rec(tr, ref, hist):
        if len(hist) == depth:
            return
        for i, d in enumerate(L):
            t2 = copy.deepcopy(tr)
            r2 = copy.deepcopy(ref)
            upd = {k: conv(v) for k, v in d.items()}
            with np.errstate(all='ignore'):
                t2.update(dict(upd))
                r2.update({k: F(v) * rscale for k, v in d.items()})
                n[0] += 1
                h2 = hist + [d]
                check(t2, r2, tname, len(h2), f"MultiValueTracker({'WelfordTracker' if not dyn else f'ES(alpha={alpha})'}) "
                                               f"with {tname} values after updates {h2}")
            states.add((base, tname, family, tuple(sorted(((repr(k), tuple(v)) for k, v in r2.hist.items())))))
            rec(t2, r2, h2)
    try:
        rec(make(), MultiRef(dyn, alpha), [])
    except Exception as e:
        v = e if isinstance(e, Violation) else choice.library_exception(e, f'for MultiValueTracker task {task}')
        viol.append((v.key, v.what, {}, ()))
    return dict(task=list(task), transitions=n[0], states=len(states), violations=viol)


def plan(tier):
    depth = 4 if tier == 'thorough' else 3
    tasks = []
    for base in ('welford', '1/2', '1', '1/4'):
        for tname in TYPES:
            tasks.append((base, tname, depth if (tname in ('Fraction', 'np.float64') or tier != 'thorough') else 3))
        tasks.append((base, 'Fraction', 3, 'mixed'))
        tasks.append((base, 'float', 2, 'mixed'))
        for tname in ('float', 'Fraction', 'np.float64', 'np.float32'):
            tasks.append((base, tname, 2, 'abc', 'tiny'))
    return tasks


def main(rep):
    tasks = plan(rep.tier)
    results = choice.pmap(run_task, tasks, chunksize=1)
    for r in results:
        rep.add(evaluations=r['transitions'], traces_validated_against_impl=r['transitions'], transitions=r['transitions'],
                states=r['states'])
        for key, what, detail, prefix in r['violations']:
            rep.violation(key, what, {'task': r['task']})
        rep.mark_nontrivial([(tuple(r['task']), i) for i in range(r['states'])])
        if len(rep.samples) < 4:
            rep.sample({'base_tracker': r['task'][0], 'value_type': r['task'][1], 'depth': r['task'][2],
                        'updates_checked': r['transitions'], 'distinct key-history states': r['states']})
    rep.assume("float types: values within 64 eps-of-type; a normaliser that cancels to rounding level is not judged",
               "the tracker is driven through update / get / get_normalized / N only")
    return rep.finish(
        rule="all sequences of 27 update-dict letters up to the depth x 4 base trackers x 6 numeric types; every prefix "
             "checked; states = distinct per-key value histories; transitions = real update calls")


def replay(data):
    r = run_task(tuple(data['replay']['task']))
    if r['violations']:
        print(f"VIOLATION property={PID} replay=(reproduced)\n  {r['violations'][0][1]}")
        return 1
    print("replay: no violation on the current tree")
    return 0
