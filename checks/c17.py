"""C17 – a failing callback leaves the explainer's estimates untouched (fault enumeration).

For every explainer configuration and every stream, every explain_one call t and every callback
invocation k of that call (model, loss, imputer entry/return, storage get_data/update) is made to raise
(one fault per execution in the quick tier, pairs – same call retried or two calls – in thorough),
combined with the deviation-bounded enumeration of the library's draws (pairs of faults: a reduced set of
configurations in the thorough tier).  Oracle: the very exception
object propagates; a deep snapshot of all estimates is identical before/after the failed call; the
stream is resumed (the failed observation is retried) and the efficiency identity C01 holds after every
later call of IncrementalSage.
"""
import copy
from fractions import Fraction as F

import numpy as np

from ixverif import choice
from ixverif.choice import Violation
from ixverif.explharness import Harness, alphabet
from ixverif.spies import EventLog, Injected, InjectedInterrupt, InjectedStop, Injector, Loss, Model, make_storage_spy, make_imputer_spy
from checks import sage_common as sc

LEVEL = 'fault_enumeration'
PID = 'C17'


def to_nparray(v):
    return np.array([float(np.asarray(v, dtype=float).ravel()[0])])


def plan(tier):
    tasks = []
    bound = 1
    deep = tier == 'thorough'
    storages = ['Batch', 'Geometric'] + (['Uniform', 'Interval', 'Sequence'] if tier == 'thorough' else [])
    for expl in ('sage', 'pfi'):
        for dyn in (False, True):
            for d in (2, 3):
                for n in (1, 2):
                    for st in storages:
                        for im in ('joint', 'default') + (('product',) if tier == 'thorough' else ()):
                            for model in ('scalar', 'multi'):
                                if tier != 'thorough' and (model == 'multi') != ((d + n + (im == 'joint')) % 2 == 0):
                                    continue
                                cfg = dict(expl=expl, dynamic=dyn, alpha=F(1, 4), n_inner=n, d=d, storage=st,
                                           imputer=im, names='str' if d == 3 else 'int', lbib=(n == 2),
                                           model=model, loss='sq', kind='incremental', conv=None)
                                pairs = deep and d == 2 and n == 1 and st in ('Batch', 'Geometric') and im == 'joint'
                                tasks.append((cfg, 3, 2 if pairs else bound))
    # the imputer built on a storage object of its own (not the explainer's)
    for expl in ('sage', 'pfi'):
        for dyn in (False, True):
            cfg = dict(expl=expl, dynamic=dyn, alpha=F(1, 4), n_inner=1, d=2, storage='Batch', imputer='joint-own',
                       names='str', lbib=False, model='scalar', loss='sq', kind='incremental', conv=None)
            tasks.append((cfg, 3, bound))
    # NumPy-array valued model outputs (in-place arithmetic on aliased values)
    for expl in ('sage', 'pfi'):
        for dyn in (False, True):
            for st in ('Batch', 'Geometric'):
                cfg = dict(expl=expl, dynamic=dyn, alpha=0.25, n_inner=2, d=2, storage=st, imputer='joint',
                           names='str', lbib=False, model='scalar', loss='sq', kind='incremental', conv='nparray')
                tasks.append((cfg, 4, bound))
    # batch explainers
    for kind in ('batch', 'batch-original', 'interval'):
        for d in (2, 3):
            for n in (1, 2):
                for model in ('scalar', 'multi'):
                    cfg = dict(expl=kind, d=d, n_inner=n, names='str', model=model, loss='sq', kind=kind,
                               dynamic=None, alpha=None, storage='own', imputer='own', conv=None)
                    tasks.append((cfg, 3, 2 if (deep and d == 2 and n == 1 and model == 'scalar') else bound))
    tasks.sort(key=lambda t: -(t[0]['d'] * t[0]['n_inner'] * (3 if t[0]['kind'] != 'incremental' else 1) * (50 if t[2] == 2 else 1)))
    return tasks


def kmax(cfg):
    d, n = cfg['d'], cfg['n_inner'] + 0
    per_feature = 2 + n * (1 + d) + n + 1
    if cfg['kind'] == 'incremental':
        return 3 + d * per_feature + 2
    return 4 + 3 * (1 + d * per_feature) + 2


def snapshot(ex):
    names = ['importance_values', 'variances', 'marginal_loss', 'model_loss', 'marginal_prediction',
             'explained_loss']
    snap = {}
    for n in names:
        if hasattr(ex, n):
            snap[n] = copy.deepcopy(getattr(ex, n))
    return snap


def same(a, b):
    from ixverif.canon import canon
    return canon(a) == canon(b)


class BatchHarness:
    def __init__(self, cfg):
        from ixai.explainer import BatchSage, IntervalSage
        from ixai.storage import BatchStorage, IntervalStorage
        from ixai.imputer import MarginalImputer
        self.cfg = cfg
        self.log = EventLog()
        self.inj = Injector()
        from ixverif.explharness import names_of
        self.names = names_of(cfg['names'], cfg['d'])
        self.model = Model(self.names, cfg['model'], None, self.log, self.inj)
        self.loss = Loss(cfg['model'], cfg['loss'], self.log, self.inj)
        if cfg['kind'] == 'interval':
            self.storage = make_storage_spy(IntervalStorage, self.log, self.inj, size=2, store_targets=True)
        else:
            self.storage = make_storage_spy(BatchStorage, self.log, self.inj, store_targets=True)
        self.imputer = make_imputer_spy(MarginalImputer(self.model, 'joint', self.storage), self.log, self.inj)
        if cfg['kind'] == 'interval':
            self.expl = IntervalSage(self.model, list(self.names), self.loss, n_inner_samples=cfg['n_inner'],
                                     interval_length=1, storage=self.storage, imputer=self.imputer)
        else:
            self.expl = BatchSage(self.model, list(self.names), self.loss, n_inner_samples=cfg['n_inner'],
                                  storage=self.storage, imputer=self.imputer)

    def call(self, x, y):
        if self.cfg['kind'] == 'interval':
            return self.expl.explain_one(x, y, verbose=False)
        return self.expl.explain_one(x, y, original_sage=(self.cfg['kind'] == 'batch-original'), verbose=False)


def measure_k(cfg, T, asize=2):
    """Largest number of callback invocations of one call over all fault-free streams (both default passes)."""
    best = [0]

    def on_leaf(run, stats):
        best[0] = max(best[0], stats['maxcount'])
    for dl in (False, True):
        choice.explore(make_driver(cfg, T, asize, K=0), on_leaf=on_leaf, bound=0, default_last=dl)
    return best[0]


def make_driver(cfg, T, asize=2, K=None, class_choice=True):
    if K is None:
        K = kmax(cfg)
    conv = to_nparray if cfg.get('conv') == 'nparray' else None

    def driver(run):
        if cfg['kind'] == 'incremental':
            h = Harness(cfg, faults=True, conv=conv)
            call = lambda x, y: h.expl.explain_one(x, y)
        else:
            h = BatchHarness(cfg)
            call = h.call
        ex = h.expl
        letters = alphabet(h.names, cfg['model'], asize)
        if conv is not None:
            letters = [({k: float(v) for k, v in x.items()}, float(y)) for x, y in letters]
        desc = f"{type(ex).__name__}[{sc.cfg_desc(cfg)}]"
        stats = {'faults': [], 'maxcount': 0, 'ok_calls': 0}
        for t in range(T):
            x, y = letters[run.choose(len(letters), 'obs', None, 0)]
            for attempt in range(3):
                k = run.choose(K + 1, 'fault-position', None, 1, keep_default=True) if (attempt < 2 and K) else 0
                before = snapshot(ex)
                # the class of the user exception: an instance of all common built-in classes, or StopIteration
                # (pairs of faults: the class is a function of the position instead of a choice - keeps the tree at 1/9)
                h.inj.exc_class = (Injected, InjectedStop, InjectedInterrupt)[
                    (run.choose(3, 'exception-class', None, 0) if class_choice else k % 3) if k > 0 else 0]
                h.inj.begin_call(armed=k if k > 0 else None)
                try:
                    call(dict(x), y)
                    raised = None
                except (Injected, InjectedStop, InjectedInterrupt) as e:
                    raised = e
                except BaseException as e:      # any other exception: fine only if it wraps the injected one
                    if isinstance(e, (KeyboardInterrupt, SystemExit)) and not isinstance(e, InjectedInterrupt):
                        raise
                    raised = e
                fired = h.inj.fired
                stats['maxcount'] = max(stats['maxcount'], h.inj.count)
                h.inj.armed = None
                where = f"{desc} call {t + 1} attempt {attempt + 1}, fault at callback invocation {k}"
                if fired is None:
                    if raised is not None:
                        raise Violation(f"{PID}/spurious-exception", f"{where}: no fault fired but "
                                        f"{type(raised).__name__}: {raised} was raised "
                                        f"(callbacks so far: {h.inj.kinds[-6:]})", {})
                    stats['ok_calls'] += 1
                    check_identity(cfg, ex, where)
                    break
                stats['faults'].append(fired.kind)
                where += f" ({fired.kind})"
                if raised is None:
                    raise Violation(f"{PID}/swallowed/{fired.kind}", f"{where}: the exception raised by the "
                                    f"callback did not propagate out of explain_one", {})
                chain, e = [], raised
                while e is not None and len(chain) < 6:
                    chain.append(e)
                    e = e.__cause__ or e.__context__
                if not any(c is fired for c in chain):
                    raise Violation(f"{PID}/other-exception/{fired.kind}", f"{where}: a different exception "
                                    f"({type(raised).__name__}: {raised}) propagated", {})
                after = snapshot(ex)
                for name in before:
                    if not same(before[name], after.get(name)):
                        raise Violation(f"{PID}/{type(ex).__name__}/estimates-changed/{fault_class(fired.kind)}",
                                        f"{where}: {name} changed from {sc.fmt(before[name])} to "
                                        f"{sc.fmt(after.get(name))} although the call failed", {})
        return stats
    return driver


def fault_class(kind):
    return 'storage' if kind.startswith('storage.update') else 'callback'


def check_identity(cfg, ex, where):
    if cfg['expl'] != 'sage':
        return
    imp = ex.importance_values
    total = sum(imp.values()) if imp else 0
    mt, lt = getattr(ex, '_marginal_loss_tracker', None), getattr(ex, '_model_loss_tracker', None)
    if cfg.get('conv'):
        tot, el = float(np.asarray(total).ravel()[0]) if np.size(total) else 0.0, ex.explained_loss
        el = float(np.asarray(el).ravel()[0])
        if abs(tot - el) > 1e-9 * max(1.0, abs(el)):
            raise Violation(f"{PID}/efficiency-after-resume", f"{where}: after resuming sum(importance_values)="
                            f"{tot!r} but explained_loss={el!r}", {})
        return
    if mt is not None and lt is not None and isinstance(mt.get(), (F, int)) and isinstance(lt.get(), (F, int)):
        if mt.get() - lt.get() != total:
            raise Violation(f"{PID}/efficiency-after-resume", f"{where}: sum(importance_values)={total} but tracked "
                            f"marginal loss - model loss = {mt.get() - lt.get()} (C01 lost after a failed call)", {})
    elif abs(F(float(ex.explained_loss)) - F(total)) > 8 * F(2.220446049250313e-16) * max(
            1, abs(F(float(ex.marginal_loss))) + abs(F(float(ex.model_loss)))):
        raise Violation(f"{PID}/efficiency-after-resume", f"{where}: sum(importance_values)={total} but "
                        f"explained_loss={ex.explained_loss!r}", {})


def run_task(task):
    cfg, T, bound = task
    kinds = {}
    agg = {'maxcount': 0, 'positions': set(), 'execs_with_fault': 0}

    def on_leaf(run, stats):
        for k in stats['faults']:
            kinds[k] = kinds.get(k, 0) + 1
        agg['maxcount'] = max(agg['maxcount'], stats['maxcount'])
        if stats['faults']:
            agg['execs_with_fault'] += 1
    K = measure_k(cfg, T if cfg['kind'] == 'incremental' else T + 2)
    drv = make_driver(cfg, T, K=K, class_choice=(bound < 2))
    st = choice.explore(drv, on_leaf=on_leaf, bound=bound)
    dl = False
    if not st.violations:
        st2 = choice.explore(drv, on_leaf=on_leaf, bound=bound, default_last=True)
        st.merge(st2)
        dl = bool(st2.violations)
    return dict(task=task, K=K, executions=st.executions, violations=st.violations, default_last=dl, kinds=kinds,
                maxcount=agg['maxcount'], with_fault=agg['execs_with_fault'], unscripted=st.unscripted)


def main(rep):
    tasks = plan(rep.tier)
    results = choice.pmap(run_task, tasks, chunksize=1)
    allkinds = {}
    for r in results:
        cfg, T, bound = r['task']
        rep.add(evaluations=r['executions'], traces_validated_against_impl=r['executions'])
        rep.unscripted += r['unscripted']
        for key, what, detail, prefix in r['violations']:
            rep.violation(key, what, {'task': [cfg, T, bound], 'K': r['K'], 'prefix': list(prefix),
                                      'default_last': r['default_last']})
        if r['violations']:
            continue
        if r['maxcount'] > r['K']:
            raise choice.HarnessError(f"fault positions not covered: a call of {sc.cfg_desc(cfg)} made "
                                      f"{r['maxcount']} callback invocations, only {r['K']} are enumerated")
        need = {'model', 'loss', 'storage.update'}
        if cfg['kind'] != 'batch-original':
            need |= {'imputer', 'imputer-return'}
        if not need <= set(r['kinds']):
            raise choice.HarnessError(f"non-vacuity: {sc.cfg_desc(cfg)} faults only at {sorted(r['kinds'])}")
        for k, v in r['kinds'].items():
            allkinds[k] = allkinds.get(k, 0) + v
        rep.mark_nontrivial([(sc.cfg_desc(cfg), k) for k in r['kinds']])
        if len(rep.samples) < 4 and cfg['d'] == 3:
            rep.sample({'config': sc.cfg_desc(cfg), 'stream_length': T, 'deviation_bound': bound,
                        'executions': r['executions'], 'executions_with_a_fault': r['with_fault'],
                        'callback_invocations_per_call_max': r['maxcount'], 'faults_fired_by_kind': r['kinds']})
    if not rep.samples:
        rep.sample({'config': sc.cfg_desc(results[0]['task'][0])})
    rep.note(configs=len(tasks), faults_fired_by_kind=allkinds)
    rep.assume("faults are exceptions raised by the user-supplied callbacks (model, loss, imputer, storage spy "
               "raising before delegating); estimates = importance_values, variances, marginal_loss, model_loss, "
               "marginal_prediction, explained_loss (deep snapshots)",
               "the storage itself is not required to be unchanged by a failed call")
    return rep.finish(
        rule="for every config x stream: every call x every callback position raises (budget: <=1 fault or draw "
             "deviation per execution in quick, <=2 in thorough), around two base executions; non-trivial = "
             "distinct (config, callback kind at which a fault actually fired)")


def replay(data):
    r = data['replay']
    cfg, T, bound = r['task']
    cfg = dict(cfg)
    if isinstance(cfg.get('alpha'), str):
        cfg['alpha'] = F(cfg['alpha'])
    out = []
    for _ in range(2):
        run, res, viol = choice.execute(make_driver(cfg, T, K=r.get('K'), class_choice=(int(bound) < 2)), tuple(r['prefix']),
                                        default_last=bool(r.get('default_last')))
        out.append((viol.key, viol.what) if viol else None)
    if out[0] != out[1]:
        print("HARNESS-ERROR: replay not deterministic")
        return 2
    if out[0]:
        print(f"VIOLATION property={PID} replay=(reproduced)\n  {out[0][1]}")
        return 1
    print("replay: no violation on the current tree")
    return 0
