"""C15 – explainer call contract: defaults, loss signature, names, evaluation budget.

Enumerates explainer class x constructor form (required arguments only / each optional argument
overridden) x feature-name type (str, int, float and all mixtures) x d x constructor n_inner x loss form
(positional-only callable, (y_true, y_pred) callable, river metric) x every word of per-call options
(n_inner override, update_storage flag) over streams of 3 (4) observations, around two base executions of
the library's draws.  Call-recording spies decide: construction succeeds, importance keys == names,
seen_samples, number of model evaluations (1 + d*n, none on the first call), x / y / names unmodified,
exactly one storage update with (x, y) as the LAST callback of the call (none when the flag is False),
return value == importance_values.
"""
import copy
import itertools
from fractions import Fraction as F

from ixverif import choice
from ixverif.choice import Violation
from ixverif.explharness import NAME_SETS, build_storage
from ixverif.spies import EventLog, Loss, Model
from ixverif.refmodels import dict_eq

LEVEL = 'model_checking'
PID = 'C15'
NAME_KINDS = ['str', 'int', 'float', 'mixed', 'str+int', 'str+float', 'int+float']


class ModelFault(Exception):
    pass


class FaultyModel(Model):
    """Model spy that can be armed to raise at a given evaluation."""
    fail_at = None

    def __call__(self, x):
        if self.fail_at is not None and isinstance(x, dict) and self.n_calls + 1 >= self.fail_at:
            self.n_calls += 1
            raise ModelFault(f"user model failed at evaluation {self.n_calls}")
        return super().__call__(x)


def make_loss(kind, log):
    spy = Loss('scalar', 'sq', log)
    if kind == 'positional':
        return spy                                   # def __call__(self, a, b, /)
    if kind == 'lambda':
        return lambda y, p: spy(y, p)                # arbitrary parameter names
    if kind == 'named':
        def loss(y_true, y_pred):
            return spy(y_true, y_pred)
        return loss
    if kind == 'river':
        from river import metrics
        return metrics.MAE()
    raise ValueError(kind)


def plan(tier):
    tasks = []
    T = 4 if tier == 'thorough' else 3
    for expl in ('pfi', 'sage'):
        for nk in NAME_KINDS:
            for d in (1, 2, 3):
                if d == 1 and nk in ('mixed', 'str+int', 'str+float', 'int+float'):
                    continue
                for n in (1, 2):
                    for st in ('Batch', 'Geometric', 'libdefault'):
                        for lk in ('positional', 'lambda', 'river'):
                            if tier != 'thorough' and (NAME_KINDS.index(nk) + d + n + ('Batch', 'Geometric', 'libdefault').index(st)
                                                       + ('positional', 'lambda', 'river').index(lk)) % 3 == 1:
                                continue        # quick: 2/3 of the product (thorough: all)
                            tasks.append(('incremental', dict(expl=expl, names=nk, d=d, n=n, storage=st, loss=lk,
                                                              form='required-only' if (n == 1 and st == 'libdefault')
                                                              else 'overrides'), T))
    for expl in ('batch', 'interval'):
        for nk in NAME_KINDS:
            for d in (1, 2, 3):
                if d == 1 and nk in ('mixed', 'str+int', 'str+float', 'int+float'):
                    continue
                for n in (1, 2):
                    for lk in ('positional', 'lambda', 'named', 'river'):
                        tasks.append(('batch', dict(expl=expl, names=nk, d=d, n=n, loss=lk,
                                                    form='required-only' if n == 1 else 'overrides'), 3))
    tasks.append(('ctor', {}, 0))
    return tasks


def desc(cfg):
    return ', '.join(f"{k}={v}" for k, v in cfg.items())


SALT = [0]


def observations(names, T):
    """Arrivals with values that are unique per (execution, arrival, feature): a value seen by the model that belongs
    to another execution's stream exposes state shared between independently constructed explainers."""
    SALT[0] += 1
    out = []
    for t in range(T):
        x = {n: F(10 * (t + 1) + j, 2) + 1000 * SALT[0] for j, n in enumerate(names)}
        out.append((x, F(t + 1, 3)))
    return out


def bad(key, cfg, what):
    raise Violation(f"{PID}/{key}", f"[{desc(cfg)}] {what}", {'cfg': cfg})


def check_keys(cfg, names, values, what):
    if len(values) != len(names) or any(n not in values for n in names):
        bad('keys', cfg, f"{what} has keys {list(values.keys())!r}, expected exactly the feature names {names!r}")


def incremental_driver(cfg, T):
    def driver(run):
        from ixai.explainer import IncrementalPFI, IncrementalSage
        names = list(NAME_SETS[cfg['names']][:cfg['d']])
        names_arg = list(names)
        log = EventLog()
        model = FaultyModel(names, 'scalar', None, log)
        loss = make_loss(cfg['loss'], log)
        storage = build_storage(cfg['storage'], log, None, spy=True)
        cls = IncrementalPFI if cfg['expl'] == 'pfi' else IncrementalSage
        # exactly one environment scenario per execution (they are not crossed with each other)
        scenarios = ['plain', 'extra-key', 'warm-start', 'model-fault', 'numpy-ints'] + (['earlier-explainer'] if cfg['storage'] == 'libdefault' else [])
        scenario = scenarios[run.choose(len(scenarios), 'scenario', None, 0)]
        if scenario == 'earlier-explainer':
            # another explainer built with the default storage has already processed a stream in this process
            for other_cls in (IncrementalPFI, IncrementalSage):
                other = other_cls(Model(names, 'scalar', None, EventLog()), Loss('scalar', 'sq', EventLog()), list(names))
                for i in range(3):
                    other.explain_one({n: F(7000 + 10 * i + j) for j, n in enumerate(names)}, F(i))
        kw = {}
        # 'numpy-ints': the counts come from NumPy (np.arange, rng.integers, a typed parameter grid) - integers all the same
        import numpy as _np
        ctor_int = _np.int64 if scenario == 'numpy-ints' else int
        if cfg['form'] != 'required-only':
            kw['n_inner_samples'] = ctor_int(cfg['n'])
            if storage is not None:
                kw['storage'] = storage
        try:
            ex = cls(model, loss, names_arg, **kw)
        except Exception as e:
            bad('construction', cfg, f"{cls.__name__}(model, loss, feature_names{', ' + ', '.join(kw) if kw else ''}) "
                                     f"raised {type(e).__name__}: {e}")
        n_ctor = cfg['n'] if cfg['form'] != 'required-only' else 1
        if getattr(ex, 'seen_samples', 0) != 0:
            bad('seen-samples', cfg, f"seen_samples is {ex.seen_samples} after construction")
        obs = observations(names, T + 1)
        pre = obs[T:]
        obs = obs[:T]
        if scenario == 'extra-key':
            # the observation has more keys than the explained feature names (explaining a subset of the inputs)
            obs = [({**x, 'zz_extra': F(1000 + i)}, y) for i, (x, y) in enumerate(obs)]
            pre = [({**x, 'zz_extra': F(2000 + i)}, y) for i, (x, y) in enumerate(pre)]
        prefilled = []
        if scenario == 'warm-start':
            # the storage is filled through the public update_storage before the first explain_one
            ex.update_storage(dict(pre[0][0]), pre[0][1])
            prefilled = [pre[0]]
        for t, (x, y) in enumerate(obs):
            opts = {}
            n_eff = n_ctor
            if t >= 1:
                o = run.choose(3, 'n-override', None, 0)
                if o:
                    n_eff = (3, 1)[o - 1] if n_ctor != (3, 1)[o - 1] else 2
                    opts['n_inner_samples'] = n_eff if scenario != 'numpy-ints' else (_np.uint8, _np.int64)[o - 1](n_eff)
                if run.choose(2, 'update-storage-flag', None, 0):
                    opts['update_storage'] = False
            x_in = dict(x)
            x_before = copy.deepcopy(x_in)
            names_before = list(names_arg)
            seen_before = ex.seen_samples
            mark = log.mark()
            fault_at = (1 + run.choose(1 + cfg['d'] * n_eff, 'model-fault-at-evaluation', None, 0)) \
                if (scenario == 'model-fault' and t == T - 1 and t >= 1) else 0
            if fault_at:
                # the user's model raises at its fault_at-th evaluation of this call: x (and the names) must be untouched
                model.fail_at = model.n_calls + fault_at
                y_before = copy.deepcopy(y)
                try:
                    ex.explain_one(x_in, y, **opts)
                    bad('model-exception-swallowed', cfg, f"call {t + 1}: the model raised at evaluation {fault_at} but "
                                                          f"explain_one returned normally")
                except ModelFault:
                    pass
                except Violation:
                    raise
                except Exception as e:
                    bad('explain-raised', cfg, f"call {t + 1}: {type(e).__name__}: {e!r} instead of the model's exception")
                model.fail_at = None
                if x_in != x_before or list(x_in.keys()) != list(x_before.keys()):
                    bad('x-modified-after-fault', cfg, f"call {t + 1} (options {opts}): the model raised at its evaluation "
                                                       f"{fault_at} of the call and x was left modified: {x_in} (was {x_before})")
                if names_arg != names_before:
                    bad('names-modified', cfg, f"call {t + 1}: the feature-name list was modified to {names_arg!r}")
                break
            try:
                ret = ex.explain_one(x_in, y, **opts)
            except Exception as e:
                bad('explain-raised', cfg, f"call {t + 1} explain_one(x, y, {opts}) raised {type(e).__name__}: {e!r}")
            ev = log.since(mark)
            where = f"call {t + 1} (options {opts})"
            if ex.seen_samples != seen_before + 1:
                bad('seen-samples', cfg, f"{where}: seen_samples went from {seen_before} to {ex.seen_samples}")
            n_model = sum(1 for e in ev if e[0] == 'model')
            want = 0 if t == 0 else 1 + cfg['d'] * n_eff
            if n_model != want:
                bad('model-evaluations', cfg, f"{where}: the model was evaluated {n_model} times, expected "
                                              f"{want} (= 1 + d*n_inner with d={cfg['d']}, n_inner={n_eff})")
            if x_in != x_before or list(x_in.keys()) != list(x_before.keys()):
                bad('x-modified', cfg, f"{where}: x was modified to {x_in}")
            if names_arg != names_before or [type(a) for a in names_arg] != [type(a) for a in names_before]:
                bad('names-modified', cfg, f"{where}: the feature-name list was modified to {names_arg!r}")
            if storage is not None:
                ups = [i for i, e in enumerate(ev) if e[0] == 'storage.update']
                if opts.get('update_storage') is False:
                    if ups:
                        bad('storage-updated-despite-flag', cfg, f"{where}: storage.update called {len(ups)} times")
                else:
                    if len(ups) != 1:
                        bad('storage-update-count', cfg, f"{where}: storage.update called {len(ups)} times, expected once")
                    e = ev[ups[0]]
                    if not dict_eq(e[1], x) or not (e[2] == y):
                        bad('storage-update-args', cfg, f"{where}: storage.update received ({e[1]}, {e[2]}), expected ({x}, {y})")
                    later = [e2[0] for e2 in ev[ups[0] + 1:] if e2[0] in ('model', 'loss', 'storage.get_data')]
                    if later:
                        bad('storage-update-not-last', cfg, f"{where}: callbacks {later} happened after the storage was "
                                                            f"updated with the current observation (it must not be part "
                                                            f"of its own background)")
            # every model input value stems from x or an earlier arrival of THIS explainer
            for e in ev:
                if e[0] == 'model':
                    for n in names:
                        v = e[1][n]
                        if not (v == x[n]) and not any(v == ox[n] for ox, _ in obs[:t] + prefilled):
                            bad('foreign-value', cfg, f"{where}: model input {e[1]} has a value for {n!r} that is "
                                                      f"neither x's nor an earlier arrival's of this explainer (state shared with another "
                                                      f"explainer / an earlier stream?)")
            if t >= 1:
                check_keys(cfg, names, ex.importance_values, f"{where}: importance_values")
            if not dict_eq(dict(ret), ex.importance_values) or list(ret.keys()) != list(ex.importance_values.keys()):
                bad('return-value', cfg, f"{where}: returned {ret} but importance_values is {ex.importance_values}")
        return (cfg['expl'], cfg['names'], cfg['d'])
    return driver


def batch_driver(cfg, T):
    def driver(run):
        from ixai.explainer import BatchSage, IntervalSage
        names = list(NAME_SETS[cfg['names']][:cfg['d']])
        names_arg = list(names)
        log = EventLog()
        model = Model(names, 'scalar', None, log)
        loss = make_loss(cfg['loss'], log)
        cls = BatchSage if cfg['expl'] == 'batch' else IntervalSage
        kw = {}
        if cfg['form'] != 'required-only':
            kw['n_inner_samples'] = cfg['n']
            if cfg['expl'] == 'interval':
                kw.update(interval_length=2, storage_length=2)
        try:
            ex = cls(model, names_arg, loss, **kw)
        except Exception as e:
            bad('construction', cfg, f"{cls.__name__}(model, feature_names, loss{', ' + ', '.join(kw) if kw else ''}) "
                                     f"raised {type(e).__name__}: {e}")
        obs = observations(names, T)
        modes = ['explain_one']
        for t, (x, y) in enumerate(obs):
            x_in = dict(x)
            try:
                if cfg['expl'] == 'interval':
                    ret = ex.explain_one(x_in, y, force_explain=(t == 0), verbose=False)
                else:
                    orig = bool(run.choose(2, 'original-mode', None, 0))
                    ret = ex.explain_one(x_in, y, original_sage=orig, verbose=False)
            except Exception as e:
                bad('explain-raised', cfg, f"call {t + 1} of {cls.__name__}.explain_one raised {type(e).__name__}: {e!r}")
            if x_in != x:
                bad('x-modified', cfg, f"call {t + 1}: x was modified to {x_in}")
            if names_arg != names:
                bad('names-modified', cfg, f"call {t + 1}: the feature-name list was modified to {names_arg!r}")
            check_keys(cfg, names, ex.importance_values, f"call {t + 1}: importance_values")
            if not dict_eq(dict(ret), ex.importance_values):
                bad('return-value', cfg, f"call {t + 1}: returned {ret} but importance_values is {ex.importance_values}")
        if cfg['expl'] == 'batch':
            xs, ys = [dict(x) for x, _ in obs], [y for _, y in obs]
            for meth in ('explain_many', 'explain_many_original'):
                try:
                    ret = getattr(ex, meth)(xs, ys, verbose=False)
                except Exception as e:
                    bad('explain-raised', cfg, f"{meth} raised {type(e).__name__}: {e!r}")
                check_keys(cfg, names, ret, f"{meth} result")
        return (cfg['expl'], cfg['names'], cfg['d'])
    return driver


def ctor_driver(cfg, T):
    """Each optional constructor argument overridden one at a time; two calls must work."""
    def driver(run):
        from ixai.explainer import IncrementalPFI, IncrementalSage, BatchSage, IntervalSage
        from ixai.storage import IntervalStorage, BatchStorage, GeometricReservoirStorage
        from ixai.imputer import MarginalImputer, DefaultImputer
        names = ['a', 'b']
        menu = []
        for cls in (IncrementalPFI, IncrementalSage):
            for ov in ('none', 'storage', 'imputer', 'n_inner_samples', 'smoothing_alpha', 'dynamic_setting=False',
                       'dynamic_setting=True', 'loss_bigger_is_better', 'dynamic+alpha', 'static+alpha'):
                if ov == 'loss_bigger_is_better' and cls is IncrementalPFI:
                    continue
                menu.append((cls, ov))
        for cls in (BatchSage, IntervalSage):
            for ov in ('none', 'storage', 'imputer', 'n_inner_samples', 'interval_length', 'storage_length'):
                if ov in ('interval_length', 'storage_length') and cls is BatchSage:
                    continue
                menu.append((cls, ov))
        cls, ov = menu[run.choose(len(menu), 'ctor-override', None, 0)]
        c = {'class': cls.__name__, 'override': ov}
        log = EventLog()
        model = Model(names, 'scalar', None, log)
        loss = Loss('scalar', 'sq', log)
        kw = {}
        st = IntervalStorage(size=3, store_targets=True) if cls is IntervalSage else \
            (BatchStorage(store_targets=True) if cls is BatchSage else GeometricReservoirStorage(size=3))
        if ov == 'storage':
            kw['storage'] = st
        elif ov == 'imputer':
            kw['storage'] = st
            kw['imputer'] = MarginalImputer(model, 'product', st)
        elif ov == 'n_inner_samples':
            kw['n_inner_samples'] = 2
        elif ov == 'smoothing_alpha':
            kw['smoothing_alpha'] = F(1, 2)
        elif ov == 'dynamic_setting=False':
            kw['dynamic_setting'] = False
        elif ov == 'dynamic_setting=True':
            kw['dynamic_setting'] = True
        elif ov == 'loss_bigger_is_better':
            kw['loss_bigger_is_better'] = True
        elif ov == 'dynamic+alpha':
            kw.update(dynamic_setting=True, smoothing_alpha=1)
        elif ov == 'static+alpha':
            kw.update(dynamic_setting=False, smoothing_alpha=F(1, 3))
        elif ov == 'interval_length':
            kw['interval_length'] = 1
        elif ov == 'storage_length':
            kw['storage_length'] = 2
        try:
            if cls in (BatchSage, IntervalSage):
                ex = cls(model, list(names), loss, **kw)
            else:
                ex = cls(model, loss, list(names), **kw)
            for t, (x, y) in enumerate(observations(names, 3)):
                if cls is IntervalSage:
                    ret = ex.explain_one(dict(x), y, force_explain=True, verbose=False)
                elif cls is BatchSage:
                    ret = ex.explain_one(dict(x), y, verbose=False)
                else:
                    ret = ex.explain_one(dict(x), y)
        except Exception as e:
            bad('construction', c, f"{cls.__name__} with override {ov} ({sorted(kw)}) raised {type(e).__name__}: {e!r}")
        check_keys(c, names, ex.importance_values, "importance_values")
        return (cls.__name__, ov, 0)
    return driver


DRIVERS = {'incremental': incremental_driver, 'batch': batch_driver, 'ctor': ctor_driver}


def run_task(task):
    kind, cfg, T = task
    seen = set()
    calls = [0]

    def on_leaf(run, res):
        seen.add(res)
        calls[0] += max(T, 1)
    drv = DRIVERS[kind](cfg, T)
    st = choice.explore(drv, on_leaf=on_leaf, bound=0)
    dl = False
    if not st.violations and kind != 'ctor':
        st2 = choice.explore(drv, on_leaf=on_leaf, bound=0, default_last=True)
        st.merge(st2)
        dl = bool(st2.violations)
    return dict(task=task, executions=st.executions, violations=st.violations, default_last=dl, seen=seen,
                transitions=calls[0], unscripted=st.unscripted)


def main(rep):
    tasks = plan(rep.tier)
    results = choice.pmap(run_task, tasks, chunksize=4)
    states = set()
    for r in results:
        kind, cfg, T = r['task']
        rep.add(evaluations=r['executions'], traces_validated_against_impl=r['executions'],
                transitions=r['transitions'])
        rep.unscripted += r['unscripted']
        for key, what, detail, prefix in r['violations']:
            rep.violation(key, what, {'task': [kind, cfg, T], 'prefix': list(prefix), 'default_last': r['default_last']})
        states |= r['seen']
        rep.mark_nontrivial(r['seen'])
        if len(rep.samples) < 4 and kind != 'ctor' and cfg.get('d') == 3 and cfg['names'] in ('mixed', 'int+float'):
            rep.sample({'kind': kind, 'config': cfg, 'stream_length': T, 'executions (option words x 2 base executions)':
                        r['executions']})
    if not rep.samples:
        rep.sample({'config': results[0]['task'][1]})
    rep.add(states=max(1, len(states)))
    rep.note(configs=len(tasks))
    rep.assume("the default imputer is used for the evaluation budget; storage order is observed through a storage "
               "spy (subclass of the real storage class)",
               "feature names of different types do not collide as dict keys (1 and 1.0 are not mixed)",
               "the first call always updates the storage (imputing from an empty storage is outside the property)")
    return rep.finish(
        rule="product of explainer x constructor form x name types x d x n_inner x loss form x all per-call option "
             "words, around two base executions of the draws; non-trivial = distinct (explainer, name type, d) and "
             "(class, constructor override) cases completed; states = same; transitions = explain_one calls checked")


def replay(data):
    r = data['replay']
    kind, cfg, T = r['task']
    out = []
    for _ in range(2):
        run, res, viol = choice.execute(DRIVERS[kind](cfg, T), tuple(r['prefix']),
                                        default_last=bool(r.get('default_last')))
        out.append((viol.key, viol.what) if viol else None)
    if out[0] != out[1]:
        print("HARNESS-ERROR: replay not deterministic")
        return 2
    if out[0]:
        print(f"VIOLATION property={PID} replay=(reproduced)\n  {out[0][1]}")
        return 1
    print("replay: no violation on the current tree")
    return 0
