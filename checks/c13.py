"""C13 – a river metric used as loss is a pure, smaller-is-better function of its inputs.

Every concrete river metric class that validate_loss_function accepts is discovered at run time; for each,
an explicit-state BFS explores all interleaved call histories (depth 4 quick / 6 thorough) of two loss
wrappers sharing the metric object (letters A(i) / B(i): wrapper A / B evaluates pair i of a family-specific
alphabet; V: the metric is validated again, i.e. a third explainer is built mid-stream), de-duplicated on
the canonical state of the metric and both wrappers.  Oracle on every transition: the returned value equals
sign * (value of a fresh metric after that single pair), metric.get() is unchanged.  Routing ('output' entry
vs whole dict) is checked with two recording Metric subclasses.
"""
import copy
import inspect
import math

from ixverif import choice, statespace
from ixverif.canon import canon
from ixverif.choice import Violation

LEVEL = 'model_checking'
PID = 'C13'

REG = [(1.0, 0.5), (0.0, 2.0), (3.0, 3.0), (0, -1), (0, -2), (2.5, 0.25), (2.0, float('inf')), (1.0, float('nan'))]
BIN = [(True, True), (True, False), (False, True), (False, False), (True, 0.7), (False, 0.2)]
MULTI = [(0, 0), (0, 1), (1, 1), (2, 0), ('x', 'x'), ('x', 'y'), (-1, -1), (-1, -2), ('1', '1'), ('0', '1'),
         (2 ** 53 + 1, 2 ** 53 + 1), ('1e3', '1e3')]
DICT = [(0, {0: 0.7, 1: 0.3}), (1, {0: 0.6, 1: 0.4}), (1, {0: 0.1, 1: 0.9}), ('x', {'x': 0.5, 'y': 0.5}),
        (0, {0: 1.0, 1: 0.0})]


_USER = {}


def user_metrics():
    """User subclasses of river metrics with sklearn-style sugar: metric(y_true, y_pred) updates and returns the value. They
    are river metrics (isinstance) AND callable; used as a loss they must be treated as metrics (wrapped, reverted, negated)."""
    if not _USER:
        from river import metrics

        def sugar(base):
            class Callable_(base):
                def __call__(self, y_true, y_pred):
                    self.update(y_true, y_pred)
                    return self.get()
            Callable_.__name__ = Callable_.__qualname__ = 'UserCallable' + base.__name__
            return Callable_
        for base in (metrics.MAE, metrics.Accuracy, metrics.CrossEntropy, metrics.MacroF1):
            c = sugar(base)
            _USER[c.__name__] = c
    return _USER


def metric_class(name):
    from river import metrics
    return user_metrics()[name] if name in user_metrics() else getattr(metrics, name)


def discover():
    from river import metrics
    from river.metrics.base import Metric
    from ixai.utils.validators.loss import validate_loss_function
    out = []
    for name in sorted(dir(metrics)):
        c = getattr(metrics, name)
        if inspect.isclass(c) and issubclass(c, Metric) and not inspect.isabstract(c):
            try:
                m = c()
                lf = validate_loss_function(m)
            except Exception:
                continue
            out.append(name)
    for name, c in user_metrics().items():
        try:
            validate_loss_function(c())
            out.append(name)
        except Exception:
            continue
    return out


def family(metric, wrapper):
    from river.metrics.base import RegressionMetric, BinaryMetric
    if getattr(wrapper, '_dict_input_metric', False):
        return 'dict', DICT
    if isinstance(metric, RegressionMetric):
        return 'regression', REG
    if isinstance(metric, BinaryMetric):
        return 'binary', BIN
    return 'multiclass', MULTI


def same(a, b):
    try:
        if a != a and b != b:
            return True
    except Exception:
        pass
    return a == b


def fresh_value(cls, y_true, y_pred):
    try:
        m = cls()
        m.update(y_true=y_true, y_pred=y_pred)
        return ('ok', m.get())
    except Exception as e:
        return ('raised', type(e).__name__)


class State:
    def __init__(self, name):
        from river import metrics
        from ixai.utils.validators.loss import validate_loss_function
        self.name = name
        self.cls = metric_class(name)
        self.metric = self.cls()
        self.A = validate_loss_function(self.metric)
        self.B = validate_loss_function(self.metric)
        self.fam, self.pairs = family(self.metric, self.A)
        self.sign = -1.0 if getattr(self.metric, 'bigger_is_better', False) else 1.0
        # wrapper B always receives its predictions through ONE caller-owned dict, overwritten in place before every call
        # (a model with a pre-allocated output buffer); wrapper A receives a fresh dict per call
        self.buf = {}


def s_letters(state):
    out = [('A', i) for i in range(len(state.pairs))] + [('B', i) for i in range(len(state.pairs))] + [('V', 0)]
    return out


def s_step(state, letter):
    from ixai.utils.validators.loss import validate_loss_function
    who, i = letter
    before = state.metric.get()
    where = f"river.metrics.{state.name} shared by two loss wrappers, letter {letter}"
    if who == 'V':
        try:
            validate_loss_function(state.metric)
        except Exception as e:
            raise Violation(f"{PID}/revalidation-raised", f"{where}: validating the metric again raised "
                                                          f"{type(e).__name__}: {e}", {})
        out = 'V'
    else:
        y_true, y_pred = state.pairs[i]
        arg = dict(y_pred) if state.fam == 'dict' else {'output': y_pred}
        if who == 'B':
            state.buf.clear()
            state.buf.update(arg)
            arg = state.buf
        want = fresh_value(state.cls, y_true, y_pred)
        try:
            got = ('ok', (state.A if who == 'A' else state.B)(y_true, arg))
        except Exception as e:
            got = ('raised', type(e).__name__)
        if want[0] == 'ok':
            exp = want[1] * state.sign
            if got[0] != 'ok' or not same(got[1], exp):
                raise Violation(f"{PID}/value/{state.fam}", f"{where}: loss({y_true!r}, {arg!r}) = {got[1]!r} "
                                f"({got[0]}) but a fresh {state.name} reports {want[1]!r} after that single pair, "
                                f"so the loss must be {exp!r}", {})
        out = (who, i, got[0])
        if arg != (dict(y_pred) if state.fam == 'dict' else {'output': y_pred}):
            raise Violation(f"{PID}/argument-modified", f"{where}: the prediction dict was modified to {arg}", {})
    after = state.metric.get()
    if not same(before, after):
        raise Violation(f"{PID}/metric-changed/{state.fam}", f"{where}: metric.get() changed from {before!r} to "
                                                             f"{after!r}", {})
    return out


def s_canon(state):
    return (canon(state.metric), canon(state.A), canon(state.B))


# -------------------------------------------------------------------------------------- routing spies
def routing_check():
    from river.metrics.base import Metric
    from ixai.utils.validators.loss import validate_loss_function
    viol = []

    CALLS = []

    class Rec(Metric):
        dict_only = False

        def __init__(self):
            self.val = 0.0

        def update(self, y_true, y_pred, **kw):
            if self.dict_only and not isinstance(y_pred, dict):
                raise AttributeError("'int' object has no attribute 'items'")
            CALLS.append(('update', y_true, copy.deepcopy(y_pred)))      # shared by clones / copies of the metric
            self.val += 1.0
            return self

        def revert(self, y_true, y_pred, **kw):
            if self.dict_only and not isinstance(y_pred, dict):
                raise AttributeError("'int' object has no attribute 'items'")
            CALLS.append(('revert', y_true, copy.deepcopy(y_pred)))
            self.val -= 1.0
            return self

        def get(self):
            return self.val

        @property
        def bigger_is_better(self):
            return False

        def works_with(self, model):
            return True

    class RecDict(Rec):
        dict_only = True

    n = 0
    for cls, pred in ((Rec, {'output': 4.5, 'other': 9}), (RecDict, {'a': 0.25, 'b': 0.75})):
        m = cls()
        lf = validate_loss_function(m)
        del CALLS[:]
        val = lf('T', dict(pred))
        n += 1
        want = pred if cls is RecDict else pred['output']
        ups = [c for c in CALLS if c[0] == 'update']
        revs = [c for c in CALLS if c[0] == 'revert']
        if not ups or any(c[1:] != ('T', want) for c in ups):
            viol.append((f"{PID}/routing", f"{cls.__name__}: the metric's update received {ups}, expected "
                                           f"('T', {want!r}) ({'whole dict' if cls is RecDict else 'output entry'})", {}, ()))
        elif any(c[1:] != ('T', want) for c in revs):
            viol.append((f"{PID}/routing-revert", f"{cls.__name__}: revert received {revs}, expected the same "
                                                  f"arguments as update", {}, ()))
        elif val != 1.0 or m.get() != 0.0:
            viol.append((f"{PID}/routing-value", f"{cls.__name__}: loss returned {val!r} (expected 1.0), metric.get() "
                                                 f"afterwards {m.get()!r} (expected 0.0)", {}, ()))
    return n, viol


def long_pair(fam, t):
    """Pair number t of a long history in which (for label-based metrics) every call brings labels never seen before."""
    if fam == 'regression':
        return (t * 1.5 - 7.0, t * 0.5 + 1.0)
    if fam == 'binary':
        return BIN[t % len(BIN)]
    if fam == 'dict':
        p = (t % 10 + 1) / 11
        return (t % 2, {0: p, 1: 1 - p})
    lab = t if t % 5 else f"s{t}"
    return (lab, lab) if t % 2 == 0 else (lab, t + 100000)


def long_history(name, n):
    """Necessary-condition probe beyond the BFS depth: ONE long call history (n calls alternating between the two sharing
    wrappers, re-validation every 64 calls, for label-based metrics hundreds of distinct labels), the purity oracle of
    s_step after every call, and the first pairs evaluated again at the end."""
    st = State(name)
    hist = []
    try:
        for t in range(n):
            st.pairs = [long_pair(st.fam, t)]
            s_step(st, ('A' if t % 2 else 'B', 0))
            hist.append(t)
            if t % 64 == 63:
                s_step(st, ('V', 0))
        for t in (0, 1, 2, 3, n - 1):
            st.pairs = [long_pair(st.fam, t)]
            s_step(st, ('A', 0))
    except Violation as v:
        return n, [(v.key + '/long-history', f"after a history of {len(hist)} calls with new labels / values every call: {v.what}",
                    {}, [('long', n)])]
    return n, []


def run_task(task):
    name, depth = task
    if name.startswith('__long__:'):
        n, viol = long_history(name.split(':', 1)[1], depth)
        return dict(task=task, states=1, transitions=n, violations=viol, outcomes={(name, n)}, fam='long-history',
                    truncated=False)
    if name == '__routing__':
        n, viol = routing_check()
        return dict(task=task, states=1, transitions=n, violations=viol, outcomes={('routing', n)}, fam='routing',
                    truncated=False)
    res = statespace.bfs(lambda: State(name), s_letters, s_step, s_canon, depth, max_states=200000)
    fam = State(name).fam
    viol = [(k, w, {}, list(h)) for k, w, h in res.violations]
    ok_values = {o for o in res.outcomes if o != 'V' and o[2] == 'ok'}
    return dict(task=task, states=res.states, transitions=res.transitions, violations=viol,
                outcomes={(name, o) for o in res.outcomes}, fam=fam, truncated=res.truncated, n_ok=len(ok_values))


def main(rep):
    names = discover()
    depth = 6 if rep.tier == 'thorough' else 4
    tasks = [(n, depth) for n in names] + [('__routing__', 0)] + \
        [('__long__:' + n, 2000 if rep.tier == 'thorough' else 400) for n in names]
    results = choice.pmap(run_task, tasks, chunksize=1)
    fams = {}
    for r in results:
        rep.add(evaluations=r['transitions'], traces_validated_against_impl=r['transitions'], states=r['states'],
                transitions=r['transitions'])
        for key, what, detail, hist in r['violations']:
            rep.violation(key, what, {'metric': r['task'][0], 'depth': r['task'][1], 'history': hist})
        fams.setdefault(r['fam'], []).append(r['task'][0])
        rep.mark_nontrivial(r['outcomes'])
        if r['truncated']:
            rep.exhaustive = False
        if r['fam'] not in ('routing', 'long-history') and not r['violations'] and r.get('n_ok', 0) < 2:
            raise choice.HarnessError(f"non-vacuity: {r['task'][0]} produced {r.get('n_ok')} successful loss evaluations")
        if len(rep.samples) < 4 and r['fam'] in ('dict', 'binary', 'regression', 'multiclass') and r['fam'] not in \
                [s.get('family') for s in rep.samples]:
            rep.sample({'metric': r['task'][0], 'family': r['fam'], 'bfs_depth': r['task'][1], 'states': r['states'],
                        'transitions': r['transitions']})
    if len(names) < 30:
        raise choice.HarnessError(f"only {len(names)} river metrics discovered")
    rep.note(metrics=len(names), families={k: len(v) for k, v in fams.items()})
    rep.assume("long histories (400 / 2000 calls, new labels every call) are single deterministic paths: a necessary-condition "
               "probe beyond the BFS depth, not an exhaustive exploration",
               "metrics are fresh when handed to ixai", "values compared with == (NaN equals NaN); a pair on which a fresh "
               "metric itself raises is not judged", "river 0.26.1 as installed")
    return rep.finish(
        rule="for each accepted river metric: BFS over all call histories of two sharing wrappers + re-validation with "
             "canonical-state de-duplication; non-trivial = distinct (metric, letter, outcome) observations; "
             "states / transitions as explored")


def replay(data):
    r = data['replay']
    name = r['metric']
    if name == '__routing__':
        n, viol = routing_check()
        v = viol[0][1] if viol else None
    elif name.startswith('__long__:'):
        n, viol = long_history(name.split(':', 1)[1], int(r['depth']))
        v = viol[0][1] if viol else None
    else:
        vv = statespace.replay(lambda: State(name), s_step, [tuple(h) for h in r['history']])
        v = vv.what if vv else None
    if v:
        print(f"VIOLATION property={PID} replay=(reproduced)\n  {v}")
        return 1
    print("replay: no violation on the current tree")
    return 0
