"""C08 – UniformReservoirStorage keeps a uniformly random k-subset (probabilistic, discretised).

Full weighted enumeration of the real class's choice tree for small (k, n).  randrange is enumerated
exactly; the continuous draws random.random() are answered from midpoints of grids whose sizes differ
per draw index (pairwise co-prime: M, M+1, M+3, M-1, ...), which de-aligns the lattice from the
algorithm's decision boundaries.  The probability of every k-subset is compared with 1/C(n,k) within a
quadrature tolerance tau that is CALIBRATED AT RUN TIME on two independent correct implementations of
Algorithm L (both draw orders) executed under exactly the same grids.
"""
import itertools
import math
from fractions import Fraction

from ixverif import choice
from ixverif.choice import Violation

LEVEL = 'model_checking'
OFFSETS = (0, 1, 3, -1, 5, 7, -3, 9, 11, 13)
TAU_FLOOR = 0.02
TAU_FACTOR = 2.5


def grid_policy(base):
    cache = {}

    def pol(i):
        if i not in cache:
            M = base + OFFSETS[i % len(OFFSETS)] + 2 * (i // len(OFFSETS))
            cache[i] = (tuple((j + 0.5) / M for j in range(M)), None)
        return cache[i]
    return pol


# ------------------------------------------------------------- independent reference implementations
class RefL:
    """Textbook Algorithm L (Li 1994), written independently of ixai. order='WS': after a replacement
    draw the new W first and then the skip; order='SW' draws the uniform for the skip first (but
    evaluates it with the NEW W) – both are correct."""

    def __init__(self, k, order):
        import random
        self.r = random
        self.k, self.order = k, order
        self.items = []
        self.n = 0
        self.W = math.exp(math.log(self.r.random()) / k)
        self.next = k + math.floor(math.log(self.r.random()) / math.log(1 - self.W)) + 1

    def update(self, x):
        self.n += 1
        if self.n <= self.k:
            self.items.append(x)
        elif self.n == self.next:
            self.items[self.r.randrange(self.k)] = x
            if self.order == 'WS':
                self.W *= math.exp(math.log(self.r.random()) / self.k)
                u = self.r.random()
            else:
                u = self.r.random()
                self.W *= math.exp(math.log(self.r.random()) / self.k)
            self.next += math.floor(math.log(u) / math.log(1 - self.W)) + 1


_SUB = {}


def make_impl(k, sub=False):
    from ixai.storage import UniformReservoirStorage
    if sub:     # a user subclass whose get_data hands out copies of the lists: the reservoir is the object's own content
        if 'cls' not in _SUB:
            class SnapshotUniform(UniformReservoirStorage):
                def get_data(self):
                    xs, ys = super().get_data()
                    return list(xs), list(ys)
            _SUB['cls'] = SnapshotUniform
        return _SUB['cls'](size=k, store_targets=True)
    return UniformReservoirStorage(size=k, store_targets=True)


def build_neighbours():
    """Other library objects constructed (and, where that needs no draws, used) while the reservoir is in use: none of
    them may disturb the reservoir's draws (a constructor that re-seeds the global generator makes every later draw of
    the reservoir a fixed function of that seed)."""
    import ixai.storage as S
    import ixai.imputer as I
    import ixai.explainer as E
    model = lambda x: {'output': x['a'] if isinstance(x, dict) else 0}   # noqa: E731
    loss = lambda y, p: 0                                               # noqa: E731
    out = [S.BatchStorage(store_targets=True), S.IntervalStorage(size=2, store_targets=True),
           S.SequenceStorage(store_targets=True), S.GeometricReservoirStorage(size=4, store_targets=True),
           S.TreeStorage(cat_feature_names=['c'], num_feature_names=['a'], seed=7)]
    for st in out[:4]:
        st.update({'a': 1, 'c': 'u'}, 0)
    out.append(I.MarginalImputer(model, 'joint', out[0]))
    out.append(I.TreeImputer(model, storage_object=out[4]))
    out.append(E.IncrementalPFI(model, loss, ['a', 'c'], storage=out[3], imputer=out[5]))
    out.append(E.IncrementalSage(model, loss, ['a', 'c'], storage=out[3], imputer=out[5]))
    out.append(E.BatchSage(model, ['a', 'c'], loss, storage=out[0]))
    out.append(E.IntervalSage(model, ['a', 'c'], loss, interval_length=2, storage=out[1]))
    return out


def driver_for(kind, k, n):
    def driver(run):
        if kind in ('impl', 'neigh', 'sub', 'fork'):
            s = make_impl(k, sub=(kind == 'sub'))
            keep = None
            for t in range(1, n + 1):
                s.update({'id': t}, t)
                if kind == 'neigh' and t == k:
                    keep = build_neighbours()
                if kind == 'fork' and t == k:       # checkpoint / restore: the stream continues on a deep copy
                    cp = choice.safe_copy(s)
                    if cp is not None:
                        keep, s = s, cp
            xs, ys = s.get_data()
            ids = [x['id'] if x['id'] == y else (x['id'], y) for x, y in zip(list(xs), list(ys))]
            if len(list(ys)) != len(list(xs)):
                ids.append('targets-missing')
        else:
            s = RefL(k, kind)
            for t in range(1, n + 1):
                s.update(t)
            ids = list(s.items)
        return tuple(sorted(ids, key=repr)), len(ids)
    return driver


def run_task(task):
    kind, k, n, base, root = task
    acc = {}
    tot = [0.0]
    bad = []

    reseeds = set()

    def on_leaf(run, res):
        ids, ln = res
        w = float(run.weight)
        tot[0] += w
        if ln != k or len(set(ids)) != k:
            bad.append(ids)
        if run.world:
            reseeds.update(run.reseeded.values())
            ids = ('@world', run.world, ids)      # draws after a library-side re-seed: judged per fixed answer sequence
        acc[ids] = acc.get(ids, 0.0) + w
    with _np_quiet():
        st = choice.explore(driver_for(kind, k, n), on_leaf=on_leaf, root=root,
                            float_policy=grid_policy(base), weighted=False)
    return dict(kind=kind, k=k, n=n, base=base, acc=acc, tot=tot[0], executions=st.executions, bad=bad[:3],
                unscripted=st.unscripted, reseeds=sorted(reseeds))


class _np_quiet:
    def __enter__(self):
        import numpy as np
        self.old = np.seterr(all='ignore')

    def __exit__(self, *a):
        import numpy as np
        np.seterr(**self.old)


def long_path_task(task):
    """Necessary-condition probe on long single paths: with the continuous draws answered by an equidistributed
    deterministic sequence u_i = frac(u0 + i*phi) (and slot 0) - constants would starve correct key-based algorithms -
    a reservoir of size k must keep accepting arrivals: under the uniform law the probability that none of
    W consecutive arrivals n0..n0+W is accepted is about (n0/(n0+W))^k, i.e. astronomically small for the windows used.
    A reservoir that stops accepting (e.g. an internal weight that underflows) is caught here; this is beyond the reach
    of the small exhaustive (k,n) configurations."""
    _, k, n, u, window = task
    from ixai.storage import UniformReservoirStorage
    k_arg, k = k, int(k)

    def driver(run):
        s = UniformReservoirStorage(size=k_arg, store_targets=True)
        last_change = k
        prev = None
        for t in range(1, n + 1):
            s.update({'id': t}, t)
            if t > k:
                xs = s.get_data()[0]
                cur = xs[0]['id'], xs[-1]['id'], xs[(t * 7) % k]['id']
                if t % 50 == 0 or t == n:
                    ids = [x['id'] for x in xs]
                    if ids != prev:
                        last_change = t if prev is not None else last_change
                        prev = ids
                    if len(ids) != k or len(set(ids)) != k or max(ids) > t:
                        raise Violation("C08/long-path-not-a-k-subset", f"UniformReservoirStorage(size={k}) after {t} "
                                        f"observations on the equidistributed path u0={u}: {len(ids)} rows, {len(set(ids))} distinct", {})
                    if t - last_change > window:
                        raise Violation("C08/stopped-accepting", f"UniformReservoirStorage(size={k_arg!r}) on the path where the "
                                        f"continuous draws are frac({u} + i*0.618..): no arrival between {last_change} and {t} entered the reservoir "
                                        f"(newest stored arrival {max(ids)}); under the uniform law each arrival n is kept "
                                        f"with probability k/n, the chance of such a gap is about {(last_change / t) ** k:.1e}", {})
        return max(x['id'] for x in s.get_data()[0])
    def weyl(i):        # equidistributed deterministic draws u_i = frac(u + i * golden ratio): one "generic" path
        v = (u + (i + 1) * 0.6180339887498949) % 1.0
        return ((min(max(v, 1e-9), 1 - 1e-9),), None)
    with _np_quiet():
        run, res, viol = choice.execute(driver, (), weyl, False)
    return dict(kind='long', k=k, n=n, u=u, newest=res, violations=[(viol.key, viol.what)] if viol else [])


def through_explainer_task(task):
    """The reservoir driven through an explainer whose default imputer reads its live rows: whatever the draws, the
    reservoir must remain a k-subset of the stream (complete, unmodified arrivals).  Deviation-bounded reachability
    (no probabilities): <= 1 non-default draw around the two base executions."""
    _, expl, k, n = task
    from ixai.explainer import IncrementalPFI, IncrementalSage
    from ixai.storage import UniformReservoirStorage

    def driver(run):
        storage = UniformReservoirStorage(size=k, store_targets=False)
        names = ['a', 'b', 'c']
        cls = IncrementalPFI if expl == 'pfi' else IncrementalSage
        ex = cls(lambda x: {'output': x['a'] - 2 * x['b'] + x['c']}, lambda y, p: (y - p['output']) ** 2, names,
                 storage=storage, n_inner_samples=1, smoothing_alpha=0.5)
        for t in range(1, n + 1):
            ex.explain_one({'a': 10 * t + 1, 'b': 10 * t + 2, 'c': 10 * t + 3}, t)
            rows = list(storage.get_data()[0])
            ok = len(rows) == min(t, k) and len({r['a'] for r in rows}) == len(rows) and all(
                r['a'] % 10 == 1 and r['b'] == r['a'] + 1 and r['c'] == r['a'] + 2 and r['a'] <= 10 * t + 1 for r in rows)
            if not ok:
                raise Violation("C08/not-a-k-subset", f"UniformReservoirStorage(size={k}) driven through Incremental"
                                f"{expl.upper()} (default imputer): after {t} observations it holds {rows}, which is not a "
                                f"set of min(n,k) distinct observations of the stream", {})
        return None
    viol = []
    n_exec = 0
    with _np_quiet():
        for dl in (False, True):
            st = choice.explore(driver, bound=1, float_policy=lambda i: ((0.5, 0.05, 0.95), None), default_last=dl)
            n_exec += st.executions
            viol += [(v[0], v[1]) for v in st.violations]
    return dict(kind='through', k=k, n=n, u=expl, newest=n_exec, violations=viol[:1])


def plan(tier):
    if tier == 'thorough':
        return [(1, 2, 24), (1, 3, 13), (2, 3, 16), (2, 4, 9), (1, 4, 7), (3, 4, 12), (3, 5, 6), (2, 5, 5), (1, 5, 4),
                (4, 5, 10), (4, 6, 5)]
    return [(1, 2, 8), (1, 3, 6), (2, 3, 6), (2, 4, 5), (3, 4, 6)]


def split_worlds(acc):
    """acc -> [(world, normalised acc)], one entry per deterministic post-re-seed answer sequence (choice.world_groups);
    [( (), acc )] when the library never re-seeded a global generator."""
    if not any(isinstance(s, tuple) and s and s[0] == '@world' for s in acc):
        return [((), acc)]
    leaves = [((s[1], (s[2], w)) if (isinstance(s, tuple) and s and s[0] == '@world') else ((), (s, w))) for s, w in acc.items()]
    out = []
    for world, members in list(choice.world_groups(leaves, cap=200).items()):
        tot = sum(w for _, w in members)
        a = {}
        for ids, w in members:
            a[ids] = a.get(ids, 0.0) + w / tot
        out.append((world, a))
    return out


def errors(acc, k, n):
    subs = list(itertools.combinations(range(1, n + 1), k))
    u = 1.0 / len(subs)
    e_sub = max(abs(acc.get(s, 0.0) - u) for s in subs)
    incl = {t: sum(w for s, w in acc.items() if t in s) for t in range(1, n + 1)}
    e_inc = max(abs(incl[t] - k / n) for t in incl)
    foreign = [s for s in acc if s not in set(subs)]
    return e_sub, e_inc, incl, foreign


def main(rep):
    cfgs = plan(rep.tier)
    tasks = []
    for k, n, base in cfgs:
        for kind in ('impl', 'WS', 'SW') + (('neigh', 'sub', 'fork') if k * n <= (8 if rep.tier == 'thorough' else 6) else ()):
            with _np_quiet():
                roots = choice.frontier(driver_for(kind, k, n), 2, grid_policy(base))
            tasks += [(kind, k, n, base, r) for r in roots]
    long_tasks = [('long', k, n, u, w) for (k, n, w) in ((1000, 6000 if rep.tier != 'thorough' else 20000, 1500), (400, 5000, 1500),
                                                        (100, 4000, 2500))
                  for u in (0.5, 0.05, 0.95, 0.3)]
    # the size given as a narrow NumPy integer (typed parameter grid): the stream is longer than the type's range
    import numpy as _np
    long_tasks += [('long', _np.int8(20), 700, u, 300) for u in (0.5, 0.3)] + [('long', _np.uint8(40), 1200, u, 500) for u in (0.5, 0.3)] + \
        [('long', _np.int16(40), 36000, 0.3, 2500)]
    through = [('through', e, k, 5) for e in ('pfi', 'sage') for k in (1, 2, 3)]
    long_res = choice.pmap(lambda t: through_explainer_task(t) if t[0] == 'through' else long_path_task(t),
                           long_tasks + through, chunksize=1)
    for r in long_res:
        rep.add(evaluations=1, transitions=r['n'])
        for key, what in r['violations']:
            rep.violation(key, what, {'k': r['k'], 'n': r['n'], 'base': 0, 'long': [r['k'], r['n'], r['u']]})
    rep.sample({'long_paths': [{'k': r['k'], 'n': r['n'], 'constant_draw': r['u'], 'newest_stored_arrival': r['newest']}
                               for r in long_res[:4] if r['kind'] == 'long']}, limit=12)
    raw = choice.pmap(run_task, tasks, chunksize=4)
    merged = {}
    for r in raw:
        key = (r['kind'], r['k'], r['n'], r['base'])
        m = merged.setdefault(key, dict(acc={}, tot=0.0, executions=0, bad=[], unscripted=0, reseeds=set()))
        m['reseeds'].update(r.get('reseeds', ()))
        for s, w in r['acc'].items():
            m['acc'][s] = m['acc'].get(s, 0.0) + w
        m['tot'] += r['tot']
        m['executions'] += r['executions']
        m['bad'] += r['bad']
        m['unscripted'] += r['unscripted']
    states = 0
    table = []
    for k, n, base in cfgs:
        res = {kind: merged[(kind, k, n, base)] for kind in ('impl', 'WS', 'SW', 'neigh', 'sub', 'fork') if (kind, k, n, base) in merged}
        for kind, m in res.items():
            if abs(m['tot'] - 1.0) > 1e-9 and not m['reseeds']:
                raise choice.HarnessError(f"leaf weights of {kind} (k={k},n={n}) sum to {m['tot']}")
        ref_err = [errors(res[kind]['acc'], k, n) for kind in ('WS', 'SW')]
        tau = max(TAU_FLOOR, TAU_FACTOR * max(max(e[0], e[1]) for e in ref_err))
        for kind in ('impl', 'neigh', 'sub', 'fork'):
            if kind not in res:
                continue
            m = res[kind]
            rep.add(evaluations=m['executions'] + (sum(res[r]['executions'] for r in ('WS', 'SW')) if kind == 'impl' else 0),
                    traces_validated_against_impl=m['executions'])
            rep.unscripted += m['unscripted']
            states += len(m['acc'])
            desc = f"UniformReservoirStorage(size={k}) after n={n} observations (grid base {base})" + \
                {'neigh': ", other library objects constructed after observation k",
                 'sub': " (user subclass whose get_data returns copies of the lists)",
                 'fork': ", continued on a deep copy taken after observation k"}.get(kind, "")
            worlds = split_worlds(m['acc'])
            scored = []
            for world, acc in worlds:
                e_sub, e_inc, incl, foreign = errors(acc, k, n)
                scored.append((max(e_sub, e_inc), e_sub, e_inc, incl, foreign, world))
            scored.sort(key=lambda t: -t[0])
            _, e_sub, e_inc, incl, foreign, world = scored[0]
            if world or m['reseeds']:
                desc += (f"; the library re-seeded a global generator ({'; '.join(sorted(m['reseeds']))}), so the later draws "
                         f"are a fixed function of that seed - for the answer sequence {[c for _, _, c in world]}")
            if m['bad'] or foreign:
                rep.violation("C08/not-a-k-subset", f"{desc}: stored ids {m['bad'] or foreign} are not a "
                              f"k-subset of the stream", {'k': k, 'n': n, 'base': base})
            elif m['unscripted']:
                rep.inconclusive.append(f"(k={k}, n={n}): {m['unscripted']} draws from primitives the harness "
                                        f"cannot enumerate; no probability verdict")
            elif e_sub > tau or e_inc > tau:
                worst = max(incl, key=lambda t: abs(incl[t] - k / n))
                rep.violation("C08/not-uniform",
                              f"{desc}: max |P(subset) - 1/C(n,k)| = {e_sub:.4f}, max |P(item kept) - k/n| = "
                              f"{e_inc:.4f} (item {worst}: {incl[worst]:.4f} vs {k / n:.4f}); tolerance {tau:.4f} "
                              f"(reference Algorithm L under the same grids: "
                              f"{max(ref_err[0][:2]):.4f}, {max(ref_err[1][:2]):.4f}); "
                              f"P(item t kept) = {[round(incl[t], 4) for t in sorted(incl)]}",
                              {'k': k, 'n': n, 'base': base})
            row = {'k': k, 'n': n, 'grid_base': base, 'scenario': {'impl': 'alone', 'neigh': 'with-neighbours', 'sub': 'snapshot-subclass', 'fork': 'deep-copy'}[kind],
                   'paths_impl': m['executions'], 'tau': round(tau, 5),
                   'err_subset_impl': round(e_sub, 5), 'err_inclusion_impl': round(e_inc, 5),
                   'err_ref_WS': round(max(ref_err[0][:2]), 5), 'err_ref_SW': round(max(ref_err[1][:2]), 5),
                   'P(item t kept)': [round(incl[t], 4) for t in sorted(incl)]}
            table.append(row)
            rep.sample(row, limit=10)
            rep.mark_nontrivial([(k, n, kind, s) for s in m['acc']])
    rep.add(states=states, transitions=sum(r['paths_impl'] for r in table))
    rep.note(table=table, tau_rule=f"tau = max({TAU_FLOOR}, {TAU_FACTOR} x worst quadrature error of two "
                                   f"independent correct Algorithm-L implementations on the same grids)")
    rep.exhaustive = True
    rep.assume("random.random() uniform on [0,1), randrange uniform (trusted primitives)",
               "continuous draws are discretised to per-draw co-prime midpoint grids: the verdict is "
               "'no deviation from uniform larger than tau for these (k,n)', not exact uniformity",
               "states = distinct final reservoir contents, transitions = complete paths of the choice tree",
               "scenario 'with-neighbours' (small (k,n)): every other public storage / imputer / explainer class is "
               "constructed after observation k; a library-side re-seed of a global generator makes the later draws of that "
               "generator non-random (they are enumerated with weight 1 and uniformity is judged for every fixed answer "
               "sequence)")
    return rep.finish(
        rule="full weighted enumeration of all paths per (k,n,grid); non-trivial = distinct (k,n,final "
             "k-subset) reached with positive probability")


def replay(data):
    r = data['replay']
    from ixverif.report import Report
    rep = Report('C08', 'quick', 0, LEVEL)
    global plan
    k, n, base = int(r['k']), int(r['n']), int(r['base'])
    old = plan
    plan = lambda tier: [(k, n, base)]
    try:
        return main(rep)
    finally:
        plan = old
