"""C09 – GeometricReservoirStorage follows its recency-weighted inclusion law (exact, weighted).

Full weighted enumeration of the choice tree of the real class: random.random() is answered from the
midpoints of an M-cell grid whose size is a multiple of the denominator of p (so that `u <= p` holds on
exactly p*M cells and all leaf weights are exact rationals), randrange over all slots.  The retention
probability of every arrival after every stream length, the entry probability and the slot law are
compared with the closed forms as Fractions.
"""
from fractions import Fraction
from math import lcm

from ixverif import choice
from ixverif.choice import Violation

LEVEL = 'model_checking'
FALSY = (0, 1, False, '', 0.0, None, 7)


def configs(tier):
    out = []
    plan = [(4, 4), (8, 3)] if tier == 'thorough' else [(4, 3)]     # (grid multiplier, post-fill horizon)
    for mult, extra in plan:
        for k in (1, 2, 3) + ((4,) if tier == 'thorough' and extra == 3 else ()):
            for p in ('default', Fraction(0), Fraction(1, 3), Fraction(1, 2), Fraction(1), 1.0,
                      Fraction(1, 4), Fraction(3, 4)):
                pv = Fraction(1, k) if p == 'default' else Fraction(p)
                M = pv.denominator * mult
                out.append(dict(k=k, p=p, pv=pv, M=M, n=k + extra, st=(k % 2 == 0)))
    # the reservoir in use while other library objects are constructed (none may disturb its draws)
    out += [dict(c, neigh=True) for c in list(out) if c['k'] <= 2 and c['p'] in ('default', Fraction(1, 3))
            and c['M'] == min(x['M'] for x in out if x['k'] == c['k'] and x['p'] == c['p'])]
    base = [c for c in out if c['k'] == 2 and c['p'] in ('default', Fraction(1, 3), Fraction(1)) and not c.get('neigh')
            and c['M'] == min(x['M'] for x in out if x['k'] == 2 and x['p'] == c['p'])]
    seen = set()
    for c in base:
        if (c['k'], str(c['p'])) in seen:
            continue
        seen.add((c['k'], str(c['p'])))
        # checkpoint / restore before the reservoir is full: the stream continues on a deep copy / a pickle round trip
        out.append(dict(c, fork='deepcopy'))
        out.append(dict(c, fork='pickle'))
        # a user subclass whose get_data hands out copies of the lists (the law is about the object's own content)
        out.append(dict(c, sub=True))
    # streams whose observations repeat in VALUE (distinct dict objects with equal content, told apart by identity): the
    # law is about arrivals, not about values
    for c in list(out):
        if c['k'] in (2, 3) and c['p'] in ('default', Fraction(1, 2), Fraction(1)) and not any(
                c.get(f) for f in ('neigh', 'fork', 'sub')) \
                and c['M'] == min(x['M'] for x in out if x['k'] == c['k'] and x['p'] == c['p']):
            out.append(dict(c, dup=True))
    out.sort(key=lambda c: -(c['M'] * (1 + c['pv'] * (c['k'] - 1))) ** (c['n'] - c['k']))
    return out


class Untrackable(Exception):
    pass


def new_obs(cfg, t, reg):
    if not cfg.get('dup'):
        return {'id': t}
    x = {'v': t % 2, 'w': 0}
    reg[id(x)] = t
    reg.setdefault('keep', []).append(x)       # keeps the object alive: its id is not reused
    return x


def ids_of(cfg, rows, reg):
    if not cfg.get('dup'):
        return tuple(x['id'] for x in rows)
    try:
        return tuple(reg[id(x)] for x in rows)
    except KeyError:
        raise Untrackable()     # the storage holds copies: equal-valued arrivals cannot be told apart from outside


_SUB = {}


def make(cfg):
    from ixai.storage import GeometricReservoirStorage
    if cfg.get('sub'):
        if 'cls' not in _SUB:
            class SnapshotGeometric(GeometricReservoirStorage):
                def get_data(self):
                    xs, ys = super().get_data()
                    return list(xs), list(ys)
            _SUB['cls'] = SnapshotGeometric
        GeometricReservoirStorage = _SUB['cls']
    p = cfg['p']
    if p == 'default':
        return GeometricReservoirStorage(size=cfg['k'], store_targets=cfg['st'])
    arg = p if isinstance(p, float) else float(p)
    if p in (Fraction(0), Fraction(1)) and not isinstance(p, float):
        arg = int(p)
    return GeometricReservoirStorage(size=cfg['k'], store_targets=cfg['st'], constant_probability=arg)


class RefCoin:
    """Reference 1: per-arrival coin flip with probability p, uniform slot."""

    def __init__(self, k, p):
        import random
        self.r, self.k, self.p, self.items = random, k, float(p), []

    def update(self, x):
        if len(self.items) < self.k:
            self.items.append(x)
        elif self.r.random() < self.p:
            self.items[self.r.randrange(self.k)] = x


class RefGap:
    """Reference 2: the same law through geometric waiting times (a continuous transformation of the draw), as a
    correct implementation may legitimately do; under a finite grid this has a quadrature error."""

    def __init__(self, k, p):
        import math
        import random
        self.r, self.m, self.k, self.p, self.items, self.gap = random, math, k, float(p), [], None

    def update(self, x):
        if len(self.items) < self.k:
            self.items.append(x)
            return
        if self.p <= 0:
            return
        if self.gap is None:
            self.gap = 0 if self.p >= 1 else int(self.m.log(1.0 - self.r.random()) / self.m.log(1.0 - self.p))
        if self.gap == 0:
            self.items[self.r.randrange(self.k)] = x
            self.gap = None
        else:
            self.gap -= 1


class RefOneDraw:
    """Reference 3: ONE uniform per arrival decides admission (u < p) and the slot (floor(u/p*k)) - also correct."""

    def __init__(self, k, p):
        import random
        self.r, self.k, self.p, self.items = random, k, float(p), []

    def update(self, x):
        if len(self.items) < self.k:
            self.items.append(x)
            return
        u = self.r.random()
        if self.p > 0 and u < self.p:
            self.items[min(self.k - 1, int(u / self.p * self.k))] = x


OFFSETS = (0, 1, 3, -1, 5, 7, -3, 9)


def approx_policy(base):
    cache = {}

    def pol(i):
        if i not in cache:
            M = base + OFFSETS[i % len(OFFSETS)]
            cache[i] = (tuple((j + 0.5) / M for j in range(M)), None)
        return cache[i]
    return pol


def approx_probs(kind, cfg, base, cap=None):
    """Retention / entry probabilities (floats) by full weighted enumeration on per-draw co-prime grids."""
    k, n, pv = cfg['k'], min(cfg['n'], cfg['k'] + 3), cfg['pv']
    retained, entered = {}, {}

    def driver(run):
        if kind == 'impl':
            s = make(cfg)
            reg = {}
            for t in range(1, n + 1):
                s.update(new_obs(cfg, t, reg), FALSY[t % len(FALSY)])
            return ids_of(cfg, list(s.get_data()[0]), reg)
        s = {'coin': RefCoin, 'gap': RefGap, 'one': RefOneDraw}[kind](k, pv)
        for t in range(1, n + 1):
            s.update(t)
        return tuple(s.items)

    def on_leaf(run, ids):
        w = float(run.weight)
        for t in ids:
            retained[t] = retained.get(t, 0.0) + w
    st = choice.explore(driver, on_leaf=on_leaf, float_policy=approx_policy(base), weighted=False, max_exec=cap)
    if st.truncated:
        return None, st.executions, None, None
    want = {t: float((1 - pv / k) ** (n - k) if t <= k else pv * (1 - pv / k) ** (n - t)) for t in range(1, n + 1)}
    err = max(abs(retained.get(t, 0.0) - want[t]) for t in want)
    return err, st.executions, {t: round(retained.get(t, 0.0), 4) for t in want}, want


def fallback(cfg, desc):
    """The exact (grid-aligned) comparison failed. A correct implementation may transform its draws continuously (e.g.
    geometric waiting times); then probabilities under ANY finite grid carry a quadrature error. Decide with a tolerance
    calibrated at run time on two correct reference implementations under the same co-prime grids."""
    for base in (61, 41, 25, 15, 9):       # the finest grid whose tree fits the budget (quadrature error ~ 1/base)
        e_impl, n_exec, got, want = approx_probs('impl', cfg, base, cap=250000 if base > 9 else None)
        if e_impl is not None:
            break
    refs = {}
    for kind in ('coin', 'gap', 'one'):
        e, _, _, _ = approx_probs(kind, cfg, base, cap=2000000)
        refs[kind] = e if e is not None else 0.0
    e_coin, e_gap = refs['coin'], refs['gap']
    tau = max(0.02, 2.5 * max(refs.values()))
    if e_impl > tau:
        return [("C09/retention", f"{desc}: retention probabilities {got} deviate from the law "
                                  f"{ {t: round(v, 4) for t, v in want.items()} } by {e_impl:.4f} > {tau:.4f} (tolerance calibrated on two "
                                  f"correct reference implementations under the same co-prime grids of base {base}: coin flip {e_coin:.4f}, "
                                  f"waiting time {e_gap:.4f}, one draw {refs['one']:.4f}); the grid-aligned exact comparison failed as well", {}, ())], n_exec, tau, e_impl
    return [], n_exec, tau, e_impl


def driver_for(cfg):
    k, n = cfg['k'], cfg['n']

    def driver(run):
        s = make(cfg)
        hist = []
        keep = None
        reg = {}
        for t in range(1, n + 1):
            s.update(new_obs(cfg, t, reg), FALSY[t % len(FALSY)])       # targets incl. falsy ones: the law must not depend on y
            if cfg.get('neigh') and t == k:
                from checks.c08 import build_neighbours
                keep = build_neighbours()
            if cfg.get('fork') and t == k - 1:
                cp = choice.safe_copy(s, cfg['fork'])
                if cp is not None:
                    keep, s = s, cp
            try:
                ids = ids_of(cfg, list(s.get_data()[0]), reg)
            except Untrackable:
                return None
            if cfg['pv'] == 1 and t not in ids:
                raise Violation("C09/p1-newest-not-stored",
                                f"GeometricReservoirStorage(size={k}, constant_probability={cfg['p']!r}): "
                                f"arrival {t} was not stored although p = 1 (contents {ids})", {})
            hist.append(ids)
        return tuple(hist)
    return driver


def run_config(cfg):
    k, n, M, pv = cfg['k'], cfg['n'], cfg['M'], cfg['pv']
    grid = (tuple((j + 0.5) / M for j in range(M)), None)
    retained = {}     # (n', t) -> weight
    entered = {}      # (t, slot) -> weight of "arrival t sits in slot right after update t"
    states, edges = set(), set()
    tot = [Fraction(0)]

    leaves = []
    reseeds = {}

    def tally(hist, w, retained, entered):
        prev = ()
        for i, ids in enumerate(hist):
            m = i + 1
            for t in ids:
                retained[(m, t)] = retained.get((m, t), 0) + w
            if m > k:
                for slot, t in enumerate(ids):
                    if t == m:
                        entered[(m, slot)] = entered.get((m, slot), 0) + w
            states.add(ids)
            edges.add((prev, ids))
            prev = ids

    untrackable = [False]

    def on_leaf(run, hist):
        w = run.weight
        tot[0] += w
        if hist is None:
            untrackable[0] = True
            return
        if run.reseeded:
            reseeds.update(run.reseeded)
        leaves.append((run.world, (hist, w)))
        tally(hist, w, retained, entered)

    def judge(retained, entered, desc):
        for m in range(k, n + 1):
            for t in range(1, m + 1):
                want = (1 - pv / k) ** (m - k) if t <= k else pv * (1 - pv / k) ** (m - t)
                got = retained.get((m, t), Fraction(0))
                if got != want:
                    return [(f"C09/retention", f"{desc}: after {m} observations arrival {t} is "
                             f"retained with probability {got} (grid M={M}), the law gives {want}", {}, ())]
        for m in range(k + 1, n + 1):
            for slot in range(k):
                got = entered.get((m, slot), Fraction(0))
                if got != pv / k:
                    return [("C09/slot-law", f"{desc}: arrival {m} lands in slot {slot} with "
                             f"probability {got}, expected p/k = {pv / k}", {}, ())]
        return []

    st = choice.explore(driver_for(cfg), on_leaf=on_leaf, float_policy=lambda i: grid, weighted=True,
                        check_ownership=False)
    viol = list(st.violations)
    desc = f"GeometricReservoirStorage(size={k}, constant_probability={cfg['p']!r})" + \
        (" while other library objects are constructed after observation k" if cfg.get('neigh') else "") + \
        (f" continued on a {cfg['fork']} copy taken after k-1 observations" if cfg.get('fork') else "") + \
        (" (user subclass whose get_data returns copies of the lists)" if cfg.get('sub') else "") + \
        (" on a stream of equal-valued observations (distinct objects, told apart by identity)" if cfg.get('dup') else "")
    worlds = False
    if untrackable[0]:
        # the storage keeps copies of the observations: arrivals of equal value are indistinguishable from outside
        return dict(cfg=cfg, executions=st.executions, violations=viol, states=states, edges=edges, nontrivial=0,
                    sample={'k': k, 'p': str(cfg['p']), 'mode': 'skipped: storage holds copies, equal-valued arrivals untrackable'})
    if not viol and any(w for w, _ in leaves):
        # the library re-seeded a global generator: later draws are a fixed function of the seed; the law must hold for
        # every fixed answer sequence (over the remaining, genuinely random draws)
        worlds = True
        why = '; '.join(sorted(reseeds.values()))
        for world, members in list(choice.world_groups(leaves, cap=200).items()):
            gt = sum(w for _, w in members)
            r2, e2 = {}, {}
            for hist, w in members:
                tally(hist, w / gt, r2, e2)
            viol = judge(r2, e2, f"{desc}; the library re-seeded a global generator ({why}), so the later draws are a fixed "
                                 f"function of that seed - for the answer sequence {[c for _, _, c in world]}")
            if viol:
                viol = [(v[0] + '/reseeded',) + tuple(v[1:]) for v in viol]
                break
    elif not viol:
        if tot[0] != 1:
            raise choice.HarnessError(f"leaf weights sum to {tot[0]} for {cfg}")
        viol = judge(retained, entered, desc)
    mode = 'exact'
    approx = None
    if viol and not worlds and all(v[0] in ('C09/retention', 'C09/slot-law') for v in viol):
        v2, n_exec, tau, e_impl = fallback(cfg, desc)
        approx = {'tau': round(tau, 5), 'error': round(e_impl, 5), 'paths': n_exec}
        mode = 'approximate (draws are transformed continuously)'
        viol = v2 if v2 else []
    sample = {'k': k, 'p': str(cfg['p']), 'grid_M': M, 'n': n, 'leaves': st.executions, 'mode': mode, 'approx': approx,
              'P(arrival t retained after n)': {t: str(retained.get((n, t), 0)) for t in range(1, n + 1)}}
    return dict(cfg=cfg, executions=st.executions, violations=viol, states=states, edges=edges,
                sample=sample, nontrivial=len({v for v in retained.values() if 0 < v < 1}))


def main(rep):
    cfgs = configs(rep.tier)
    results = choice.pmap(run_config, cfgs)
    states, edges = set(), set()
    for r in results:
        cfg = r['cfg']
        rep.add(evaluations=r['executions'], traces_validated_against_impl=r['executions'])
        states |= {(cfg['k'], s) for s in r['states']}
        edges |= {(cfg['k'], e) for e in r['edges']}
        for key, what, detail, prefix in r['violations']:
            rep.violation(key, what, {'cfg': {k: str(v) for k, v in cfg.items()}, 'prefix': list(prefix)})
        if 0 < cfg['pv'] < 1:
            rep.mark_nontrivial([(cfg['k'], str(cfg['p']), kk, v) for kk, v in r['sample'][
                'P(arrival t retained after n)'].items()])
        if cfg['k'] == 2 and cfg['p'] in ('default', Fraction(1, 3)):
            rep.sample(r['sample'])
    rep.add(states=len(states), transitions=len(edges))
    rep.note(configs=len(cfgs))
    rep.assume("random.random() is uniform on [0,1) and randrange(k) uniform on range(k) (trusted primitives)",
               "if the grid-aligned exact comparison fails, the verdict falls back to a quadrature comparison on co-prime "
               "grids with a tolerance calibrated on three correct reference implementations (a correct implementation may "
               "use geometric waiting times instead of a per-arrival threshold test)",
               "configs flagged neigh construct every other public storage / imputer / explainer class after observation k; a "
               "library-side re-seed of a global generator makes its later draws non-random: the law is then judged for "
               "every fixed answer sequence over the remaining random draws",
               "the acceptance test is a threshold comparison of one uniform draw with p; thresholds are "
               "resolved to 1/M (M = 4x or 8x the denominator of p)")
    return rep.finish(
        rule="full weighted enumeration per (k, p, M): exact Fraction probabilities of retention for every "
             "arrival after every length k..n, and of (entry, slot); non-trivial = distinct retention "
             "probabilities strictly between 0 and 1")


def replay(data):
    cfgs = [c for c in configs(data.get('tier', 'quick'))
            if str(c['k']) == data['replay']['cfg']['k'] and str(c['p']) == data['replay']['cfg']['p']]
    bad = 0
    for c in cfgs:
        r = run_config(c)
        for v in r['violations']:
            print(f"VIOLATION property=C09 replay=(reproduced)\n  {v[1]}")
            bad = 1
    if not bad:
        print("replay: no violation on the current tree")
    return bad
