"""C09 – GeometricReservoirStorage follows its recency-weighted inclusion law (exact, weighted).

Full weighted enumeration of the choice tree of the real class: random.random() is answered from the
midpoints of an M-cell grid whose size is a multiple of the denominator of p (so that `u <= p` holds on
exactly p*M cells and all leaf weights are exact rationals), randrange over all slots.  The retention
probability of every arrival after every stream length, the entry probability and the slot law are
compared with the closed forms as Fractions.
"""
from fractions import Fraction
from math import lcm

from ixverif import choice
from ixverif.choice import Violation

LEVEL = 'model_checking'


def configs(tier):
    out = []
    plan = [(4, 4), (8, 3)] if tier == 'thorough' else [(4, 3)]     # (grid multiplier, post-fill horizon)
    for mult, extra in plan:
        for k in (1, 2, 3) + ((4,) if tier == 'thorough' and extra == 3 else ()):
            for p in ('default', Fraction(0), Fraction(1, 3), Fraction(1, 2), Fraction(1), 1.0,
                      Fraction(1, 4), Fraction(3, 4)):
                pv = Fraction(1, k) if p == 'default' else Fraction(p)
                M = pv.denominator * mult
                out.append(dict(k=k, p=p, pv=pv, M=M, n=k + extra, st=(k % 2 == 0)))
    out.sort(key=lambda c: -(c['M'] * (1 + c['pv'] * (c['k'] - 1))) ** (c['n'] - c['k']))
    return out


def make(cfg):
    from ixai.storage import GeometricReservoirStorage
    p = cfg['p']
    if p == 'default':
        return GeometricReservoirStorage(size=cfg['k'], store_targets=cfg['st'])
    arg = p if isinstance(p, float) else float(p)
    if p in (Fraction(0), Fraction(1)) and not isinstance(p, float):
        arg = int(p)
    return GeometricReservoirStorage(size=cfg['k'], store_targets=cfg['st'], constant_probability=arg)


def driver_for(cfg):
    k, n = cfg['k'], cfg['n']

    def driver(run):
        s = make(cfg)
        hist = []
        for t in range(1, n + 1):
            s.update({'id': t}, t)
            ids = tuple(x['id'] for x in list(s.get_data()[0]))
            if cfg['pv'] == 1 and t not in ids:
                raise Violation("C09/p1-newest-not-stored",
                                f"GeometricReservoirStorage(size={k}, constant_probability={cfg['p']!r}): "
                                f"arrival {t} was not stored although p = 1 (contents {ids})", {})
            hist.append(ids)
        return tuple(hist)
    return driver


def run_config(cfg):
    k, n, M, pv = cfg['k'], cfg['n'], cfg['M'], cfg['pv']
    grid = (tuple((j + 0.5) / M for j in range(M)), None)
    retained = {}     # (n', t) -> weight
    entered = {}      # (t, slot) -> weight of "arrival t sits in slot right after update t"
    states, edges = set(), set()
    tot = [Fraction(0)]

    def on_leaf(run, hist):
        w = run.weight
        tot[0] += w
        prev = ()
        for i, ids in enumerate(hist):
            m = i + 1
            for t in ids:
                retained[(m, t)] = retained.get((m, t), 0) + w
            if m > k:
                for slot, t in enumerate(ids):
                    if t == m:
                        entered[(m, slot)] = entered.get((m, slot), 0) + w
            states.add(ids)
            edges.add((prev, ids))
            prev = ids

    st = choice.explore(driver_for(cfg), on_leaf=on_leaf, float_policy=lambda i: grid, weighted=True,
                        check_ownership=False)
    viol = list(st.violations)
    desc = f"GeometricReservoirStorage(size={k}, constant_probability={cfg['p']!r})"
    if not viol:
        if tot[0] != 1:
            raise choice.HarnessError(f"leaf weights sum to {tot[0]} for {cfg}")
        for m in range(k, n + 1):
            for t in range(1, m + 1):
                want = (1 - pv / k) ** (m - k) if t <= k else pv * (1 - pv / k) ** (m - t)
                got = retained.get((m, t), Fraction(0))
                if got != want:
                    viol.append((f"C09/retention", f"{desc}: after {m} observations arrival {t} is "
                                 f"retained with probability {got} (grid M={M}), the law gives {want}",
                                 {}, ()))
                    break
            else:
                continue
            break
        for m in range(k + 1, n + 1):
            for slot in range(k):
                got = entered.get((m, slot), Fraction(0))
                if got != pv / k:
                    viol.append(("C09/slot-law", f"{desc}: arrival {m} lands in slot {slot} with "
                                 f"probability {got}, expected p/k = {pv / k}", {}, ()))
                    break
            else:
                continue
            break
    sample = {'k': k, 'p': str(cfg['p']), 'grid_M': M, 'n': n, 'leaves': st.executions,
              'P(arrival t retained after n)': {t: str(retained.get((n, t), 0)) for t in range(1, n + 1)}}
    return dict(cfg=cfg, executions=st.executions, violations=viol, states=states, edges=edges,
                sample=sample, nontrivial=len({v for v in retained.values() if 0 < v < 1}))


def main(rep):
    cfgs = configs(rep.tier)
    results = choice.pmap(run_config, cfgs)
    states, edges = set(), set()
    for r in results:
        cfg = r['cfg']
        rep.add(evaluations=r['executions'], traces_validated_against_impl=r['executions'])
        states |= {(cfg['k'], s) for s in r['states']}
        edges |= {(cfg['k'], e) for e in r['edges']}
        for key, what, detail, prefix in r['violations']:
            rep.violation(key, what, {'cfg': {k: str(v) for k, v in cfg.items()}, 'prefix': list(prefix)})
        if 0 < cfg['pv'] < 1:
            rep.mark_nontrivial([(cfg['k'], str(cfg['p']), kk, v) for kk, v in r['sample'][
                'P(arrival t retained after n)'].items()])
        if cfg['k'] == 2 and cfg['p'] in ('default', Fraction(1, 3)):
            rep.sample(r['sample'])
    rep.add(states=len(states), transitions=len(edges))
    rep.note(configs=len(cfgs))
    rep.assume("random.random() is uniform on [0,1) and randrange(k) uniform on range(k) (trusted primitives)",
               "the acceptance test is a threshold comparison of one uniform draw with p; thresholds are "
               "resolved to 1/M (M = 4x or 8x the denominator of p)")
    return rep.finish(
        rule="full weighted enumeration per (k, p, M): exact Fraction probabilities of retention for every "
             "arrival after every length k..n, and of (entry, slot); non-trivial = distinct retention "
             "probabilities strictly between 0 and 1")


def replay(data):
    cfgs = [c for c in configs(data.get('tier', 'quick'))
            if str(c['k']) == data['replay']['cfg']['k'] and str(c['p']) == data['replay']['cfg']['p']]
    bad = 0
    for c in cfgs:
        r = run_config(c)
        for v in r['violations']:
            print(f"VIOLATION property=C09 replay=(reproduced)\n  {v[1]}")
            bad = 1
    if not bad:
        print("replay: no violation on the current tree")
    return bad
