"""C18 – results are reproducible from the global random seeds.

Exhaustive finite product: explainer x storage x imputer configuration (incl. TreeStorage + TreeImputer with
explicit, zero and default seed) x seed pairs x pre-history (nothing / another explainer built and run before
seeding / 1000 draws consumed before seeding / wall clock advanced) x streams.  Every cell is replayed twice
in this process AND in two fresh sub-processes with an identical environment; storage contents and importance
values after every call are compared bit for bit (float.hex).  An entropy monitor makes hidden entropy
sources a deterministic finding: any call of time.*, os.urandom, uuid, or construction of an unseeded
generator made directly by ixai code is reported by itself (indirect effects show up in the comparison).
"""
import hashlib
import json
import os
import subprocess
import sys

LEVEL = 'exploration'
PID = 'C18'


# ------------------------------------------------------------------------------------------ workload
def stream(kind, n):
    """Deterministic mixed categorical/numerical stream (no generator involved)."""
    out = []
    for t in range(n):
        a = ((t * 7919) % 13) / 13.0
        b = ((t * 104729) % 17) / 17.0 - 0.5
        cat = (1.0, 2.0, 3.0)[(t * 31 + (t // 5)) % 3]
        if kind == 'sharp':
            # a sharp concept drift in the relation between two numerical features: for a while the adaptive
            # regression trees carry alternate sub-trees next to their main branches
            b = ((t * 104729) % 101) / 101.0
            a = ((3.0 if b > 0.5 else 0.0) if t < (n * 4) // 7 else (0.0 if b > 0.5 else 3.0) + 2.0) \
                + 0.1 * (((t * 31337) % 19) / 19.0 - 0.5)
            out.append(({'n1': a, 'n2': b, 'c1': cat}, a + b))
            continue
        if kind == 'drift' and t > n // 2:
            y = -3.0 * a + b + (1.0 if cat == 1.0 else 0.0)
        else:
            y = 2.0 * a - b * b + (0.5 if cat == 3.0 else -0.25)
        out.append(({'n1': a, 'n2': b, 'c1': cat}, y))
    return out


def model(x):
    if isinstance(x, dict):
        return {'output': 1.5 * x['n1'] - 0.7 * x['n2'] + (0.3 if x['c1'] == 1.0 else -0.1) + x['n1'] * x['n2']}
    return [model(r) for r in x]


def loss(y, p):
    d = y - p['output']
    return d * d


_RIVER = {}
_EMPTY = {}       # (no dict is allocated between two deliveries: freed observation dicts may be re-used by CPython)


def river_model():
    """ONE river classifier object per process whose predict_one returns string labels (a new label appears late in
    the stream); it is explained again and again by the cells of a process, as a user would replay a stream on a model."""
    if 'm' not in _RIVER:
        from river import base

        class RuleClassifier(base.Classifier):
            def learn_one(self, x, y):
                return self

            def predict_one(self, x):
                s = x['n1'] + x['n2']
                return 'late' if s > 1.2 else ('pos' if s > 0.3 else 'neg')

            def predict_proba_one(self, x):
                return {self.predict_one(x): 1.0}
        _RIVER['m'] = RuleClassifier()
    return _RIVER['m']


def label_loss(y, p):
    want = 'pos' if y > 0.5 else 'neg'
    return sum((v - (1.0 if k == want else 0.0)) ** 2 for k, v in p.items()) + (0.0 if want in p else 1.0)


def configs():
    out = []
    for expl in ('pfi', 'sage-dynamic', 'sage-static'):
        for st in ('uniform', 'geometric', 'default'):
            for im in ('joint', 'product'):
                if st == 'default' and im == 'product':
                    continue
                out.append(dict(expl=expl, storage=st, imputer=im, n=2))
        for seed in (7, 0, None):
            for use_storage, direct in ((False, False), (True, False), (False, True)):
                out.append(dict(expl=expl, storage='tree', tree_seed=seed, imputer='tree', use_storage=use_storage,
                                direct=direct, n=1))
    for mode in ('batch', 'batch-original', 'interval'):
        out.append(dict(expl=mode, storage='own', imputer='own', n=2))
    for expl in ('sage-dynamic', 'sage-static', 'pfi'):
        out.append(dict(expl=expl, storage='geometric', imputer='joint', n=1, river=True))
    for mode in ('batch', 'batch-original'):
        out.append(dict(expl=mode, storage='own', imputer='own', n=1, reservoir=True, delivery_pair=True))
    out.append(dict(expl='pfi', storage='geometric', imputer='joint', n=1, delivery_pair=True))
    out.append(dict(expl='interval', storage='own', imputer='own', n=1, delivery_pair=True))
    # every call overrides n_inner_samples (smaller and larger than the constructor's value): scratch space sized for the
    # constructor's value must never leak into results
    for expl in ('pfi', 'sage-dynamic'):
        out.append(dict(expl=expl, storage='geometric', imputer='joint', n=4, override=1))
        out.append(dict(expl=expl, storage='uniform', imputer='product', n=1, override=3))
    return out


def hx(v):
    try:
        import numpy as np
        if isinstance(v, (float, np.floating)):
            return float(v).hex()
    except Exception:
        pass
    return repr(v)


def storage_image(st):
    from ixai.storage import TreeStorage
    if isinstance(st, TreeStorage):
        img = []
        for feat, res in st.data_reservoirs.items():
            img.append((feat, [[sorted((k, hx(v)) for k, v in row.items()) for row in list(r.get_data()[0])]
                               for r in res.values()]))
        return img
    xs, ys = st.get_data()
    return [[sorted((k, hx(v)) for k, v in row.items()) for row in list(xs)], [hx(y) for y in list(ys)]]


def _run_cell_once(cfg, seeds, prehist, skind, n_obs, delivery='copy'):
    """Returns the list of per-call digests (importance values + storage image).
    delivery: 'copy' passes short-lived copies of the observations, 'kept' the long-lived objects of a pre-built list."""
    import random
    import numpy as np
    import ixai
    from ixai.explainer import IncrementalPFI, IncrementalSage, BatchSage, IntervalSage
    from ixai.storage import UniformReservoirStorage, GeometricReservoirStorage, TreeStorage
    from ixai.imputer import MarginalImputer, TreeImputer
    data = stream(skind, n_obs)
    if prehist == 'other-explainer':
        random.seed(12345)
        np.random.seed(54321)
        other = IncrementalSage(model, loss, ['n1', 'n2', 'c1'], smoothing_alpha=0.1)
        for x, y in data[:15]:
            other.explain_one(dict(x), y)
    elif prehist == 'draws-consumed':
        for _ in range(1000):
            random.random()
            np.random.random()
    elif prehist == 'clock-advanced':
        import time
        _CLOCK['offset'] += 86400.0 * 365
    random.seed(seeds[0])
    np.random.seed(seeds[1])
    names = ['n1', 'n2', 'c1']
    storage = None
    if cfg['storage'] == 'uniform':
        storage = UniformReservoirStorage(size=5, store_targets=False)
    elif cfg['storage'] == 'geometric':
        storage = GeometricReservoirStorage(size=5, store_targets=True, constant_probability=0.6)
    elif cfg['storage'] == 'tree':
        kw = {} if cfg['tree_seed'] is None else {'seed': cfg['tree_seed']}
        storage = TreeStorage(cat_feature_names=['c1'], num_feature_names=['n1', 'n2'], max_depth=3,
                              leaf_reservoir_length=4, grace_period=8, **kw)
    imputer = None
    if cfg['imputer'] in ('joint', 'product') and storage is not None:
        imputer = MarginalImputer(model, cfg['imputer'], storage)
    elif cfg['imputer'] == 'tree':
        imputer = TreeImputer(model, storage_object=storage, direct_predict_numeric=cfg['direct'],
                              use_storage=cfg['use_storage'])
    e = cfg['expl']
    mdl, lss = model, loss
    if cfg.get('river'):
        mdl, lss = river_model().predict_one, label_loss
        imputer = MarginalImputer(mdl, cfg['imputer'], storage)
    if e == 'pfi':
        ex = IncrementalPFI(mdl, lss, names, storage=storage, imputer=imputer, n_inner_samples=cfg['n'],
                            smoothing_alpha=0.05)
    elif e.startswith('sage'):
        ex = IncrementalSage(mdl, lss, names, storage=storage, imputer=imputer, n_inner_samples=cfg['n'],
                             dynamic_setting=(e == 'sage-dynamic'), smoothing_alpha=0.05)
    elif e == 'interval':
        from ixai.storage import IntervalStorage
        storage = IntervalStorage(size=6, store_targets=True)
        ex = IntervalSage(model, names, loss, n_inner_samples=cfg['n'], interval_length=3, storage=storage)
    else:
        from ixai.storage import BatchStorage
        storage = BatchStorage(store_targets=True) if not cfg.get('reservoir') else \
            GeometricReservoirStorage(size=3, store_targets=True, constant_probability=0.6)
        ex = BatchSage(model, names, loss, n_inner_samples=cfg['n'], storage=storage)
    digests = []
    # {**x}: a dict display takes its object from CPython's free list, i.e. very likely the address of the temporary
    # freed last (dict(x) allocates afresh) - the delivery in which a stale id() is most likely to collide
    give = (lambda x: {**x}) if delivery == 'copy' else (lambda x: x)
    if e in ('batch', 'batch-original'):
        data = data[:16 if cfg.get('reservoir') else 12]
    # bounded reservoir: every update_storage is directly followed by an explain_one, so that an observation the
    # reservoir rejected (and CPython freed) is followed by a fresh temporary at the same address
    every = 2 if cfg.get('reservoir') else 4
    for t, (x, y) in enumerate(data):
        if e == 'batch':
            vals = ex.explain_one(give(x), y, verbose=False) if t % every == every - 1 else \
                (ex.update_storage(give(x), y) or _EMPTY)
        elif e == 'batch-original':
            vals = ex.explain_one(give(x), y, original_sage=True, verbose=False) if t % every == every - 1 else \
                (ex.update_storage(give(x), y) or _EMPTY)
        elif e == 'interval':
            vals = ex.explain_one(give(x), y, verbose=False)
        elif cfg.get('override'):
            vals = ex.explain_one(give(x), y, n_inner_samples=cfg['override'])
        else:
            vals = ex.explain_one(give(x), y)
        st_obj = storage if storage is not None else getattr(ex, '_storage', None)   # library default: private, optional
        img = (sorted((str(k), hx(v)) for k, v in vals.items()), storage_image(st_obj) if st_obj is not None else None)
        digests.append(hashlib.sha1(repr(img).encode()).hexdigest()[:16])
    if cfg['storage'] == 'tree':
        # the public tree walk with observations that LACK the split features (the walk then picks a child at random,
        # weighted by the children's weights): part of what the global seeds must determine
        from ixai.storage.tree_storage import walk_through_tree
        walks = []
        for f in names:
            root = getattr(storage(f)[0], '_root', None)
            if root is None:
                continue
            for sparse in ({}, {'n1': 0.0}, {'c1': 'a'}, {}):
                try:
                    nodes = list(walk_through_tree(root, dict(sparse), until_leaf=True))
                    walks.append([type(n).__name__ + '|' + str(getattr(n, 'repr_split', '')) + '|' +
                                  hx(getattr(n, 'total_weight', 0.0)) for n in nodes])
                except Exception as exc:
                    walks.append(type(exc).__name__)
        digests.append(hashlib.sha1(repr(walks).encode()).hexdigest()[:16])
    return digests


def run_cell(cfg, seeds, prehist, skind, n_obs):
    """One cell: the stream delivered as short-lived copies and as long-lived objects must give identical results
    (results must not depend on object identities / lifetimes)."""
    a = _run_cell_once(cfg, seeds, prehist, skind, n_obs, 'copy')
    if not cfg.get('delivery_pair'):
        return a
    b = _run_cell_once(cfg, seeds, 'none', skind, n_obs, 'kept')
    if a != b:
        first = next(i for i in range(len(a)) if a[i] != b[i])
        return [f'DELIVERY-MISMATCH from call {first + 1}: the same stream delivered as temporaries vs kept objects']
    return a


# ------------------------------------------------------------------------------------------ entropy monitor
_CLOCK = {'offset': 0.0}
ENTROPY = []


def _ixai_in_stack(depth_limit=40, immediate=False):
    f = sys._getframe(2)
    n = 0
    while f is not None and n < depth_limit:
        fn = f.f_code.co_filename.replace('\\', '/')
        if '/ixai/' in fn and '/ixverif/' not in fn:
            return f"{fn.split('/ixai/')[-1]}:{f.f_lineno} ({f.f_code.co_name})"
        if immediate:
            return None
        f = f.f_back
        n += 1
    return None


def install_monitor():
    import random
    import time
    import uuid
    import numpy as np
    if getattr(install_monitor, 'done', False):
        return
    install_monitor.done = True
    for name in ('time', 'time_ns', 'perf_counter', 'monotonic', 'perf_counter_ns', 'monotonic_ns'):
        orig = getattr(time, name)

        def wrapped(*a, _orig=orig, _name=name, **k):
            site = _ixai_in_stack(immediate=True)
            if site:
                ENTROPY.append(('time.' + _name, site))
            v = _orig(*a, **k)
            return v + (_CLOCK['offset'] if isinstance(v, float) else int(_CLOCK['offset'] * 1e9))
        setattr(time, name, wrapped)
    orig_urandom = os.urandom

    def urandom(n):
        site = _ixai_in_stack(immediate=True)
        if site:
            ENTROPY.append(('os.urandom', site))
        return orig_urandom(n)
    os.urandom = urandom
    orig_uuid4 = uuid.uuid4

    def uuid4():
        site = _ixai_in_stack(immediate=True)
        if site:
            ENTROPY.append(('uuid.uuid4', site))
        return orig_uuid4()
    uuid.uuid4 = uuid4
    OrigRandom = random.Random

    class MonitoredRandom(OrigRandom):
        def __init__(self, x=None):
            if x is None:
                site = _ixai_in_stack(immediate=True)
                if site:
                    ENTROPY.append(('random.Random() seeded from the OS', site))
            super().__init__(x)
    random.Random = MonitoredRandom
    OrigRS = np.random.RandomState

    class MonitoredRandomState(OrigRS):
        def __init__(self, seed=None):
            if seed is None:
                site = _ixai_in_stack(immediate=True)
                if site:
                    ENTROPY.append(('np.random.RandomState() seeded from the OS', site))
            super().__init__(seed)
    try:
        np.random.RandomState = MonitoredRandomState
    except Exception:
        pass
    for name in ('default_rng',):
        orig = getattr(np.random, name)

        def wrapped(*a, _orig=orig, _name=name, **k):
            if (not a or a[0] is None) and not k.get('seed'):
                site = _ixai_in_stack(immediate=True)
                if site:
                    ENTROPY.append((f'np.random.{_name}() seeded from the OS', site))
            return _orig(*a, **k)
        try:
            setattr(np.random, name, wrapped)
        except Exception:
            pass


# ------------------------------------------------------------------------------------------ cells
def cells(tier, vseed):
    cfgs = configs()
    pairs = [(0, 0), (1, 0), (0, 1), (vseed + 2, vseed + 2)]
    if tier == 'thorough':
        pairs = [(a, b) for a in (0, 1, vseed + 2) for b in (0, 1, vseed + 2)]
    pre = ['none', 'other-explainer', 'draws-consumed', 'clock-advanced']
    out = []
    i = 0
    for cfg in cfgs:
        for pi, p in enumerate(pairs):
            for si, sk in enumerate(('plain', 'drift') + (('sharp',) if cfg['storage'] == 'tree' and pi == 0 else ())):
                if tier == 'thorough':
                    pres = pre
                else:
                    pres = [pre[(i + pi + si) % 4], 'none'] if pi == 0 else [pre[(i + pi + si) % 4]]
                for ph in dict.fromkeys(pres):
                    n_obs = (70 if sk != 'sharp' else 350) if cfg['storage'] == 'tree' else 30
                    out.append((cfg, p, ph, sk, n_obs))
        i += 1
    return out


def cell_key(cell):
    cfg, p, ph, sk, n = cell
    return json.dumps([cfg, list(p), ph, sk, n], sort_keys=True)


def run_cells(idx_cells):
    """Worker: runs cells, returns {key: digests}."""
    install_monitor()
    import warnings
    warnings.filterwarnings('ignore')
    out = {}
    for cell in idx_cells:
        mark = len(ENTROPY)
        try:
            d = run_cell(*cell)
        except Exception as e:
            d = ['raised ' + type(e).__name__ + ': ' + str(e)[:200]]
        out[cell_key(cell)] = {'digests': d, 'entropy': sorted(set(ENTROPY[mark:]))}
    return out


def subprocess_main():
    """Entry of the fresh sub-processes: python -m checks.c18 <tier> <vseed> <part> <parts>"""
    from ixverif import scripted
    scripted.install()           # same (pass-through) dispatchers as in the parent process
    tier, vseed, part, parts = sys.argv[1], int(sys.argv[2]), int(sys.argv[3]), int(sys.argv[4])
    cs = cells(tier, vseed)
    mine = [c for i, c in enumerate(cs) if i % parts == part]
    res = run_cells(mine)
    sys.stdout.write(json.dumps(res))


def spawn(tier, vseed, parts):
    env = dict(os.environ)
    env['PYTHONHASHSEED'] = env.get('PYTHONHASHSEED', '0')
    procs = []
    for part in range(parts):
        procs.append(subprocess.Popen([sys.executable, '-m', 'checks.c18', tier, str(vseed), str(part), str(parts)],
                                      stdout=subprocess.PIPE, stderr=subprocess.PIPE, env=env, cwd=os.getcwd()))
    out = {}
    for p in procs:
        so, se = p.communicate()
        if p.returncode != 0:
            raise RuntimeError("sub-process failed: " + se.decode()[-2000:])
        out.update(json.loads(so.decode()))
    return out


def constructor_check(rep):
    """Constructing library objects with an explicit seed must leave both global generators exactly as they are
    (a constructor that calls random.seed / np.random.seed silently restarts every other component's draws)."""
    import random
    import numpy as np
    from ixai.storage import TreeStorage, UniformReservoirStorage, GeometricReservoirStorage, IntervalStorage, BatchStorage
    random.seed(99)
    np.random.seed(99)
    for label, make in (('TreeStorage(seed=7)', lambda: TreeStorage(['c1'], ['n1', 'n2'], seed=7)),
                        ('TreeStorage(seed=0)', lambda: TreeStorage(['c1'], ['n1', 'n2'], seed=0)),
                        ('GeometricReservoirStorage', lambda: GeometricReservoirStorage(size=3)),
                        ('IntervalStorage', lambda: IntervalStorage(size=3)), ('BatchStorage', lambda: BatchStorage())):
        before = (random.getstate(), np.random.get_state()[1].tobytes(), np.random.get_state()[2])
        make()
        after = (random.getstate(), np.random.get_state()[1].tobytes(), np.random.get_state()[2])
        rep.add(evaluations=1)
        if before != after:
            rep.violation(f"{PID}/constructor-touches-global-generator/{label.split('(')[0]}",
                          f"constructing {label} changed the state of the global random generators (it re-seeds or draws "
                          f"from them): every other component's draws restart / shift", {'constructor': label})


def main(rep):
    from ixverif import choice
    constructor_check(rep)
    cs = cells(rep.tier, rep.seed)
    jobs = choice.n_jobs()
    chunks = [[c for i, c in enumerate(cs) if i % (2 * jobs) == j] for j in range(2 * jobs)]
    chunks = [c for c in chunks if c]
    runs = []
    for rnd in range(2):                       # two replays in (forked workers of) this process
        merged = {}
        for part in choice.pmap(run_cells, chunks, chunksize=1):
            merged.update(part)
        runs.append(merged)
    half = max(1, jobs // 2)
    fresh = [spawn(rep.tier, rep.seed, half), spawn(rep.tier, rep.seed, half)]
    n_diff = 0
    outcomes = set()
    for cell in cs:
        k = cell_key(cell)
        cfg, p, ph, sk, n = cell
        versions = [r[k]['digests'] for r in runs] + [f[k]['digests'] for f in fresh]
        ent = set()
        for r in runs + fresh:
            ent |= {tuple(e) for e in r[k]['entropy']}
        rep.add(evaluations=4)
        label = cfg_label(cfg)
        for what, site in sorted(ent):
            rep.violation(f"{PID}/entropy/{label}/{what.split('(')[0].strip()}",
                          f"[{label}] hidden entropy source: {what} reached from ixai code at {site} "
                          f"(seeds {p}, pre-history {ph})", {'cell': json.loads(k)})
        if any(v and v[0].startswith('DELIVERY-MISMATCH') for v in versions):
            rep.violation(f"{PID}/depends-on-object-identity/{label}", f"[{label}] seeds {p}: "
                          f"{next(v[0] for v in versions if v[0].startswith('DELIVERY'))}", {'cell': json.loads(k)})
            continue
        if any(v and v[0].startswith('raised') for v in versions):
            rep.violation(f"{PID}/raised/{label}", f"[{label}] run raised: {versions}", {'cell': json.loads(k)})
            continue
        if len({tuple(v) for v in versions}) != 1:
            first = next(i for i in range(len(versions[0])) if len({v[i] for v in versions}) != 1)
            kinds = []
            if versions[0] != versions[1]:
                kinds.append('two replays in one process')
            if versions[2] != versions[3]:
                kinds.append('two fresh processes')
            if versions[0] != versions[2]:
                kinds.append('in-process vs fresh process')
            n_diff += 1
            rep.violation(f"{PID}/not-reproducible/{label}",
                          f"[{label}] seeds (python, numpy)={p}, pre-history '{ph}', stream '{sk}': results differ "
                          f"between {', '.join(kinds)} from call {first + 1} on although both global generators were "
                          f"seeded identically", {'cell': json.loads(k)})
        outcomes.add((label, tuple(versions[0][-3:])))
    # seeds must matter (non-vacuity): different seed pairs give different results for randomised configs
    by_cfg = {}
    for cell in cs:
        by_cfg.setdefault(cfg_label(cell[0]), set()).add(tuple(runs[0][cell_key(cell)]['digests'][-1:]))
    flat = [l for l, v in by_cfg.items() if len(v) < 2]
    if len(flat) > len(by_cfg) // 2 and not rep.violations:
        raise choice.HarnessError(f"non-vacuity: results do not depend on the seeds for {flat}")
    rep.mark_nontrivial(outcomes)
    for cell in cs[:3]:
        rep.sample({'config': cell[0], 'seeds': cell[1], 'pre_history': cell[2], 'stream': cell[3], 'calls': cell[4],
                    'digests_tail': runs[0][cell_key(cell)]['digests'][-2:]})
    rep.note(cells=len(cs), configs=len(configs()), runs_per_cell=4)
    rep.assume("same interpreter configuration in all runs (PYTHONHASHSEED fixed by ./check)",
               "TreeStorage contents are compared as the reservoir contents in insertion order (leaf ids contain "
               "object addresses by construction)", "entropy monitor patches time.*, os.urandom, uuid.uuid4, unseeded "
               "random.Random / np.random.default_rng / RandomState construction")
    return rep.finish(
        rule="explainer x storage x imputer configs x seed pairs x pre-histories x streams; 2 in-process replays + 2 "
             "fresh sub-process runs per cell, bit-exact digests after every call; non-trivial = distinct (config, "
             "final digests)")


def cfg_label(cfg):
    if cfg['storage'] == 'tree':
        return f"{cfg['expl']}+TreeStorage(seed={cfg['tree_seed']})+TreeImputer(use_storage={cfg['use_storage']},direct={cfg['direct']})"
    return f"{cfg['expl']}+{cfg['storage']}+{cfg['imputer']}" + ('+river-string-label-model' if cfg.get('river') else '') + \
        ('+reservoir' if cfg.get('reservoir') else '') + ('+delivery-pair' if cfg.get('delivery_pair') else '') + (f"+n{cfg['n']}-override{cfg['override']}" if cfg.get('override') else '')


def replay(data):
    from ixverif.report import Report
    if 'constructor' in data['replay']:
        rep = Report(PID, 'quick', 0, LEVEL)
        constructor_check(rep)
        for key, (what, _) in rep.violations.items():
            print(f"VIOLATION property={PID} replay=(reproduced)\n  {what}")
        return 1 if rep.violations else 0
    cell = data['replay']['cell']
    cfg, p, ph, sk, n = cell
    install_monitor()
    a = run_cells([(cfg, tuple(p), ph, sk, n)])
    b = run_cells([(cfg, tuple(p), ph, sk, n)])
    k = list(a)[0]
    if a[k]['entropy'] or a[k]['digests'] != b[k]['digests']:
        print(f"VIOLATION property={PID} replay=(reproduced)\n  entropy={a[k]['entropy']} "
              f"reproducible={a[k]['digests'] == b[k]['digests']}")
        return 1
    print("replay: no violation on the current tree (two in-process replays agree, no entropy source)")
    return 0


if __name__ == '__main__':
    subprocess_main()
