"""C04 – PFI/SAGE updates are unbiased: uniform feature orders and background rows (exact, weighted).

FULL weighted enumeration (no deviation bound) of every draw made during one explanation: all d!
feature orders x all background-row indices, with exact rational weights; the expectation of the
contribution is compared, as an exact Fraction, with an independent brute-force value (Shapley value of
the imputer game over the whole current storage / data set; PFI: expected loss increase).  Histories: the
explanation under test is also preceded by explained calls and storage replacements (every history is
enumerated, the expectation is conditional on the history and compared with the reference computed from
the storage content at that moment).
"""
import itertools
import math
from fractions import Fraction as F

from ixverif import choice
from ixverif.choice import Violation
from ixverif.refmodels import mean_prediction
from ixverif.spies import EventLog, Loss, Model

LEVEL = 'model_checking'
PID = 'C04'


def names_for(d):
    return ['a', 'b', 'c'][:d]


class PositionalModel(Model):
    """A model that reads its features by POSITION (as SklearnWrapper / TorchWrapper do when no feature names are given):
    the expectation is only right if imputation keeps the key order of the instance."""

    def f(self, x):
        vals = list(x.values())
        return {'output': sum(F(3 ** j) * v for j, v in enumerate(vals)) + vals[0] * vals[-1]}


class TypedModel(Model):
    """A model that tells apart values that compare (and hash) equal: True / 1 / Fraction(1) - e.g. a one-hot encoder keyed
    on str(value) or an isinstance check. Background rows holding such values are different inputs to the model; anything
    that identifies imputed instances by == (a prediction cache, a set of rows) gives wrong expectations."""

    def f(self, x):
        out = F(1, 4)
        for j, n in enumerate(self.names):
            v = x[n]
            bonus = F(1, 3) if isinstance(v, bool) else F(1, 5) if type(v) is int else F(0)
            out += F(3 ** j) * v + F(2 ** j) * bonus
        return {'output': out + x[self.names[0]] * x[self.names[-1]] * F(1, 2)}


EQUAL_BUT_DISTINCT = (True, 1, F(1), 1, True)


def typed_row(i, names):
    r = row(i, names)
    r[names[-1]] = EQUAL_BUT_DISTINCT[i]
    return r


def make_model(names, kind, log):
    if kind == 'typed':
        return TypedModel(names, 'scalar', None, log)
    return PositionalModel(names, 'scalar', None, log) if kind == 'positional' else Model(names, kind, None, log)


def row(i, names):
    base = [[F(1, 2), F(-1), F(3)], [F(2), F(4, 3), F(-2)], [F(-3, 2), F(4), F(1, 4)], [F(5), F(-1, 2), F(2, 3)],
            [F(-4), F(7, 2), F(-5, 3)]]
    return {n: base[i][j] for j, n in enumerate(names)}


YS = [F(1), F(-2), F(7, 2), F(0), F(3, 5)]
YS_MULTI = ['A', 'B', 'C', 'A', 'B']


# ----------------------------------------------------------------------------- brute-force reference
def coalition_loss(model, loss, names, x, y, revealed, rows, n, strategy, original=False):
    """Expected loss of the mean of n predictions with the features outside `revealed` imputed from uniformly
    drawn stored rows (joint: one row per sample; product: one row per imputed feature and sample)."""
    imputed = [f for f in names if f not in revealed]
    if original:
        per_sample = [{**r, **{f: x[f] for f in revealed}} for r in rows]
    elif strategy == 'joint':
        per_sample = [{**x, **{f: r[f] for f in imputed}} for r in rows]
    else:
        per_sample = []
        for combo in itertools.product(rows, repeat=len(imputed)):
            per_sample.append({**x, **{f: r[f] for f, r in zip(imputed, combo)}})
    tot, cnt = 0, 0
    for combo in itertools.product(per_sample, repeat=n):
        preds = [model.f(inp) for inp in combo]
        tot = tot + loss.f(y, mean_prediction(preds))
        cnt += 1
    return tot / cnt


def shapley(model, loss, names, x, y, rows, n, strategy, empty_value, original=False):
    d = len(names)
    cache = {}

    def v(S):
        key = frozenset(S)
        if not key:
            return empty_value
        if key not in cache:
            cache[key] = coalition_loss(model, loss, names, x, y, key, rows, n, strategy, original)
        return cache[key]
    phi = {f: 0 for f in names}
    for perm in itertools.permutations(names):
        S = []
        for f in perm:
            before = v(S)
            S = S + [f]
            phi[f] = phi[f] + (before - v(S))
    fact = math.factorial(d)
    return {f: val / fact for f, val in phi.items()}


def normalise(pred):
    if len(pred) <= 1:
        return dict(pred)
    tot = sum(pred.values())
    if tot == 0:
        return {k: 0 for k in pred}
    return {k: v / tot for k, v in pred.items()}


# ----------------------------------------------------------------------------- drivers
def make_storage(kind, r):
    import ixai.storage as s
    if kind == 'Batch':
        return s.BatchStorage(store_targets=False)
    if kind == 'Interval':
        return s.IntervalStorage(size=r, store_targets=False)
    if kind == 'Geometric':
        return s.GeometricReservoirStorage(size=r, store_targets=False, constant_probability=1.0)
    raise ValueError(kind)


def inc_driver(cfg):
    names = names_for(cfg['d'])
    rw = (lambda i, nm: typed_row(i, nm)) if cfg['model'] == 'typed' else row

    def driver(run):
        from ixai.explainer import IncrementalSage, IncrementalPFI
        from ixai.imputer import MarginalImputer
        log = EventLog()
        model = make_model(names, cfg['model'], log)
        loss = Loss('scalar' if cfg['model'] in ('positional', 'typed') else cfg['model'], 'poly', log)
        storage = make_storage(cfg['storage'], cfg['r'])
        for i in range(cfg['r'] - 1):
            storage.update(rw(i, names), None)
        if cfg.get('switch'):       # built with the OTHER strategy, the public attribute reassigned afterwards
            imp = MarginalImputer(model, 'product' if cfg['strategy'] == 'joint' else 'joint', storage)
            imp.sampling_strategy = cfg['strategy']
        else:
            imp = MarginalImputer(model, cfg['strategy'], storage) if cfg['strategy'] != 'libdefault' else None
        cls = IncrementalSage if cfg['expl'] == 'sage' else IncrementalPFI
        ex = cls(model, loss, list(names), storage=storage, imputer=imp, n_inner_samples=cfg['n'],
                 dynamic_setting=True, smoothing_alpha=1)
        ys = YS if cfg['model'] in ('scalar', 'positional', 'typed') else YS_MULTI
        ex.explain_one(rw(cfg['r'] - 1, names), ys[0])            # seeds the storage: r rows now
        for h in range(cfg['H']):                                   # history: explained calls
            ex.explain_one(rw((cfg['r'] + h) % 5, names), ys[1 + h])
        hist = run.choices()
        rows = [dict(r) for r in list(storage.get_data()[0])]
        x, y = rw(4 if cfg['r'] + cfg['H'] <= 4 else 0, names), ys[3]
        ex.explain_one(dict(x), y, update_storage=False)
        return hist, rows, dict(ex.importance_values), (x, y)
    return driver


def zero():
    return F(0)


def sparse_row(i, names):
    """Observation i as a sparse collections.defaultdict (absent feature = 0): odd rows lack the last feature, even rows the
    first. The library must treat it exactly like the dense dict with explicit zeros."""
    import collections
    r = row(i, names)
    del r[names[-1] if i % 2 else names[0]]
    return collections.defaultdict(zero, r)


def batch_driver(cfg):
    names = names_for(cfg['d'])

    def driver(run):
        from ixai.explainer import BatchSage, IntervalSage
        import copy as _copy
        log = EventLog()
        model = Model(names, cfg['model'], None, log)
        loss = Loss(cfg['model'], 'poly', log)
        ys = YS if cfg['model'] == 'scalar' else YS_MULTI
        data = [(row(i, names), ys[i]) for i in range(cfg['N'])]
        if cfg.get('sparse'):
            model.sparse_ok = True
            data = [(sparse_row(i, names), ys[i]) for i in range(cfg['N'])]
            ex = BatchSage(model, list(names), loss, n_inner_samples=cfg['n'])
            for x, y in data:
                ex.update_storage(x, y)
            xs, yl = [x for x, _ in data], [y for _, y in data]
            res = ex.explain_many_original(xs, yl, verbose=False) if cfg['original'] else ex.explain_many(xs, yl, verbose=False)
            return (), None, dict(res), None
        if cfg['kind'] == 'interval':
            ex = IntervalSage(model, list(names), loss, n_inner_samples=cfg['n'], interval_length=1,
                              storage_length=cfg['N'])
            for x, y in data[:-1]:
                ex.explain_one(dict(x), y, verbose=False)
            hist = run.choices()
            res = ex.explain_one(dict(data[-1][0]), data[-1][1], verbose=False)
            return hist, None, dict(res), None
        ex = BatchSage(model, list(names), loss, n_inner_samples=cfg['n'])
        if cfg['kind'] == 'batch-explain-one':
            for x, y in data[:-1]:
                ex.update_storage(dict(x), y)
            res = ex.explain_one(dict(data[-1][0]), data[-1][1], original_sage=cfg['original'], verbose=False)
            return (), None, dict(res), None
        for x, y in data:
            ex.update_storage(dict(x), y)
        xs, yl = [dict(x) for x, _ in data], [y for _, y in data]
        if cfg['original']:
            res = ex.explain_many_original(xs, yl, verbose=False)
        else:
            res = ex.explain_many(xs, yl, verbose=False)
        return (), None, dict(res), None
    return driver


def reference_batch(cfg):
    names = names_for(cfg['d'])
    model = Model(names, cfg['model'], None, EventLog())
    loss = Loss(cfg['model'], 'poly', EventLog())
    ys = YS if cfg['model'] == 'scalar' else YS_MULTI
    data = [(row(i, names), ys[i]) for i in range(cfg['N'])]
    if cfg.get('sparse'):       # the dense equivalent: absent feature = explicit 0
        data = [({n: (sparse_row(i, names)[n] if n in sparse_row(i, names) else F(0)) for n in names}, ys[i])
                for i in range(cfg['N'])]
    rows = [x for x, _ in data]
    mp = mean_prediction([model.f(x) for x in rows])
    tot = {f: 0 for f in names}
    for x, y in data:
        phi = shapley(model, loss, names, x, y, rows, cfg['n'], 'joint', loss.f(y, mp), original=cfg.get('original'))
        for f in names:
            tot[f] = tot[f] + phi[f]
    return {f: v / len(data) for f, v in tot.items()}


def reference_inc(cfg, rows, x, y):
    names = names_for(cfg['d'])
    model = make_model(names, cfg['model'], EventLog())
    loss = Loss('scalar' if cfg['model'] in ('positional', 'typed') else cfg['model'], 'poly', EventLog())
    strategy = 'joint' if cfg['strategy'] == 'libdefault' else cfg['strategy']
    if cfg['expl'] == 'pfi':
        base = loss.f(y, model.f(x))
        out = {}
        for f in names:
            vals = [loss.f(y, model.f({**x, f: r[f]})) for r in rows]
            out[f] = sum(vals) / len(vals) - base
        return out
    empty = loss.f(y, normalise(model.f(x)))      # alpha = 1: the marginal prediction is the current one
    return shapley(model, loss, names, x, y, rows, cfg['n'], strategy, empty)


def plan(tier):
    deep = tier == 'thorough'
    tasks = []
    for expl in ('sage', 'pfi'):
        for strategy in ('joint', 'product', 'libdefault'):
            for (d, r, n) in ([(3, 3, 1), (2, 3, 2), (3, 2, 2), (2, 2, 1), (1, 3, 2)] if deep else
                              [(3, 3, 1), (2, 3, 2), (2, 2, 1), (1, 3, 2)]):
                if expl == 'sage' and strategy == 'product' and d == 3 and n == 2:
                    continue
                if strategy == 'libdefault' and (d, r, n) != (2, 3, 2):
                    continue
                for model in ('scalar', 'multi') if (deep or (d, r, n) == (2, 3, 2)) else ('scalar',):
                    tasks.append(('inc', dict(expl=expl, strategy=strategy, d=d, r=r, n=n, storage='Batch', H=0,
                                              model=model)))
            if strategy != 'libdefault':
                tasks.append(('inc', dict(expl=expl, strategy=strategy, d=3, r=2, n=1, storage='Batch', H=0, model='scalar',
                                          switch=True)))
                tasks.append(('inc', dict(expl=expl, strategy=strategy, d=3, r=2, n=1, storage='Batch', H=0,
                                          model='positional')))
                # background rows whose values compare equal (True / 1 / Fraction(1)) but are different model inputs
                tasks.append(('inc', dict(expl=expl, strategy=strategy, d=2, r=3, n=2, storage='Batch', H=0,
                                          model='typed')))
            # histories: explained calls and in-place replacements before the explanation under test
            for st, r in (('Geometric', 3), ('Interval', 2), ('Batch', 2)):
                tasks.append(('inc', dict(expl=expl, strategy=strategy if strategy != 'libdefault' else 'joint',
                                          d=2, r=r, n=1, storage=st, H=1, model='scalar')))
            if deep:
                tasks.append(('inc', dict(expl=expl, strategy='joint', d=2, r=3, n=1, storage='Geometric', H=2,
                                          model='scalar')))
    for original in (False, True):
        for (d, N, n) in ([(2, 3, 1), (2, 2, 2), (3, 2, 1), (2, 2, 1), (2, 3, 2)] if deep else
                          [(2, 3, 1), (2, 2, 2), (3, 2, 1)]):
            if (d, N, n) == (2, 3, 2):
                continue        # 4.3 M leaves (25 core-minutes): out of budget
            tasks.append(('batch', dict(kind='batch', original=original, d=d, N=N, n=n, model='scalar')))
        tasks.append(('batch', dict(kind='batch-explain-one', original=original, d=2, N=2, n=2, model='scalar')))
        # (sparse=True - collections.defaultdict observations - is NOT part of the plan, see DESIGN 9.4 and checks/c06.py)
        tasks.append(('batch', dict(kind='batch', original=original, d=2, N=2, n=1, model='multi')))
    for (d, N, n) in [(2, 2, 1), (2, 2, 2), (3, 2, 1)] + ([(2, 3, 1)] if deep else []):
        tasks.append(('batch', dict(kind='interval', original=False, d=d, N=N, n=n, model='scalar')))
    out, seen = [], set()
    for t in tasks:
        if repr(t) not in seen:
            seen.add(repr(t))
            out.append(t)
    return out


def desc(cfg):
    return ', '.join(f"{k}={v}" for k, v in cfg.items())


GRID = ((0.5,), None)


def driver_of(part, cfg):
    return inc_driver(cfg) if part == 'inc' else batch_driver(cfg)


def explore_part(sub):
    """Full weighted enumeration of the sub-tree below `root`; returns the per-history accumulators."""
    part, cfg, root = sub
    groups = {}

    def on_leaf(run, res):
        hist, rows, values, xy = res
        gk = (hist, run.world)      # draws after a library-side re-seed are not random (see finalize)
        g = groups.get(gk)
        if g is None:
            g = groups[gk] = {'w': F(0), 'acc': {}, 'rows': rows, 'xy': xy, 'outcomes': set(), 'float': False,
                              'reseeded': '; '.join(sorted(run.reseeded.values()))}
        w = run.weight
        g['w'] += w
        for f, v in values.items():
            if isinstance(v, float):        # the batch explainers accumulate in floats (they start at 0.)
                v = F(v)
                g['float'] = True
            g['acc'][f] = g['acc'].get(f, 0) + w * v
        g['outcomes'].add(tuple(sorted((repr(k), v) for k, v in values.items())))
    st = choice.explore(driver_of(part, cfg), on_leaf=on_leaf, bound=None, root=root, float_policy=lambda i: GRID,
                        weighted=True)
    return dict(key=repr((part, cfg)), groups=groups, executions=st.executions, weight=st.leaf_weight,
                violations=list(st.violations), unscripted=st.unscripted)


def finalize(part, cfg, parts):
    groups = {}
    execs = sum(p['executions'] for p in parts)
    viol = [v for p in parts for v in p['violations']]
    unscripted = sum(p['unscripted'] for p in parts)
    for p in parts:
        for hist, g in p['groups'].items():     # keyed (history, world)
            t = groups.get(hist)
            if t is None:
                groups[hist] = g
            else:
                t['w'] += g['w']
                for f, v in g['acc'].items():
                    t['acc'][f] = t['acc'].get(f, 0) + v
                t['outcomes'] |= g['outcomes']
                t['float'] = t['float'] or g['float']
    task = (part, cfg)
    if unscripted:
        return dict(task=task, executions=execs, violations=[], unscripted=unscripted, groups=0, outcomes=0, sample=None)
    total = sum(p['weight'] for p in parts)
    worlds = any(g.get('reseeded') for g in groups.values())
    if not viol and total != 1 and not worlds:
        raise choice.HarnessError(f"leaf weights sum to {total} for {desc(cfg)}")
    if worlds:
        # The library re-seeded a global generator: the later draws of that generator are a fixed function of the seed.
        # The expectation is taken over the remaining (random) draws only and must be right for EVERY fixed answer
        # sequence: one group per (history, maximal answer sequence), see choice.world_groups.
        by_hist = {}
        for (hist, world), g in groups.items():
            by_hist.setdefault(hist, []).append((world, g))
        groups = {}
        for hist, leaves in by_hist.items():
            for world, members in choice.world_groups(leaves, cap=40).items():
                t = {'w': F(0), 'acc': {}, 'rows': members[0]['rows'], 'xy': members[0]['xy'], 'outcomes': set(),
                     'float': False, 'world': world, 'reseeded': next((m['reseeded'] for m in members if m.get('reseeded')), '')}
                for m in members:
                    t['w'] += m['w']
                    for f, v in m['acc'].items():
                        t['acc'][f] = t['acc'].get(f, 0) + v
                    t['outcomes'] |= m['outcomes']
                    t['float'] = t['float'] or m['float']
                groups[(hist, world)] = t
    sample = None
    n_out = 0
    for (hist, _world), g in groups.items():
        exp = {f: v / g['w'] for f, v in g['acc'].items()}
        if part == 'inc':
            x, y = g['xy']
            ref = reference_inc(cfg, g['rows'], x, y)
            ctx = f"storage rows {[{k: str(v) for k, v in r.items()} for r in g['rows']]}, history choices {list(hist)}"
        else:
            ref = reference_batch(cfg)
            ctx = f"data set of {cfg['N']} rows"
        if g.get('world'):
            ctx += (f"; the library re-seeded a global generator ({g['reseeded']}): its later draws are a fixed function of "
                    f"the seed - for the answer sequence {[c for _, _, c in g['world']]}")
        n_out += len(g['outcomes'])
        if sample is None:
            sample = {'config': cfg, 'leaves': execs, 'histories': len(groups),
                      'expected_contribution': {str(k): str(v) if not g.get('float') else float(v) for k, v in exp.items()},
                      'brute_force_reference': {str(k): str(v) for k, v in ref.items()}}
        tol = 0
        if g.get('float'):
            tol = 256 * F(2.220446049250313e-16) * max([1] + [abs(v) for v in ref.values()]) * cfg['d'] * cfg.get('N', 1)
        if set(map(str, exp)) != set(map(str, ref)) or any(abs(exp[f] - ref[f]) > tol for f in ref):
            name = {'inc': 'Incremental' + ('Sage' if cfg.get('expl') == 'sage' else 'PFI')}.get(part, cfg.get('kind'))
            key = f"{PID}/{name}{'-original' if cfg.get('original') else ''}/biased" + \
                  ('-after-history' if cfg.get('H') else '')
            viol.append((key, f"[{desc(cfg)}] expected contribution over all {execs} draw outcomes "
                              f"({ctx}) is { {str(k): str(v) for k, v in exp.items()} } but the exact value defined by "
                              f"the storage content is { {str(k): str(v) for k, v in ref.items()} }", {}, hist))
            break
    return dict(task=task, executions=execs, violations=viol, unscripted=0, groups=len(groups),
                outcomes=n_out, sample=sample)


def run_task(task):
    part, cfg = task
    return finalize(part, cfg, [explore_part((part, cfg, ()))])


def main(rep):
    tasks = plan(rep.tier)
    subs = []
    for part, cfg in tasks:          # split every tree at depth 2 so that big trees use all cores
        for root in choice.frontier(driver_of(part, cfg), 2, lambda i: GRID):
            subs.append((part, cfg, root))
    parts = {}
    for p in choice.pmap(explore_part, subs, chunksize=1):
        parts.setdefault(p['key'], []).append(p)
    results = [finalize(part, cfg, parts[repr((part, cfg))]) for part, cfg in tasks]
    states = 0
    for r in results:
        part, cfg = r['task']
        rep.add(evaluations=r['executions'], traces_validated_against_impl=r['executions'])
        if r['unscripted']:
            rep.unscripted += r['unscripted']
            rep.inconclusive.append(f"{desc(cfg)}: {r['unscripted']} draws from primitives the harness cannot "
                                    f"enumerate; no probability verdict")
            continue
        for key, what, detail, prefix in r['violations']:
            rep.violation(key, what, {'task': [part, cfg], 'prefix': list(prefix)})
        states += r['groups']
        rep.mark_nontrivial([(desc(cfg), i) for i in range(r['outcomes'])])
        if r['sample'] and len(rep.samples) < 5 and (cfg.get('H') or cfg.get('kind') or cfg['d'] == 3):
            rep.sample(r['sample'])
    if not rep.samples:
        rep.sample(results[0]['sample'])
    rep.add(states=max(1, states), transitions=rep.counts['evaluations'])
    rep.note(tasks=len(tasks))
    rep.assume("np.random.permutation is uniform over permutations, random.randrange / randint uniform (trusted)",
               "incremental explainers are run with alpha = 1 in dynamic mode so that importance_values after the call "
               "is exactly that call's contribution", "storages in this check are deterministic or always-insert "
               "(Batch, Interval, Geometric with p=1), so the storage content is a function of the enumerated history",
               "BatchSage/IntervalSage accumulate their sums in floats (initial value 0.): their expectation is compared "
               "within 256 eps d N max|value|; the incremental explainers are compared exactly")
    return rep.finish(
        rule="full weighted enumeration of all draws of one explanation (and of every preceding history); "
             "non-trivial = distinct (config, observed contribution vector); states = histories; transitions = leaves")


def replay(data):
    r = data['replay']
    part, cfg = r['task']
    res = run_task((part, cfg))
    if res['violations']:
        print(f"VIOLATION property={PID} replay=(reproduced)\n  {res['violations'][0][1]}")
        return 1
    print("replay: no violation on the current tree")
    return 0
