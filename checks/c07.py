"""C07 – storages hold only observed data, within capacity, with targets aligned.

Full enumeration of the choice tree of: storage class x capacity x store_targets x (p) x every update
word up to depth k+D x every outcome of the library's draws (randrange: all slots; random.random: a
reachability grid).  Invariants are evaluated after EVERY update on the real object; Batch / Interval /
Sequence are additionally compared with a list reference model.
"""
from collections import Counter
from fractions import Fraction

from ixverif import choice
from ixverif.canon import canon
from ixverif.choice import Violation

LEVEL = 'model_checking'

FLOATS = ((0.5, 0.05, 0.95, 0.3, 0.7), None)
FLOATS_UNIFORM = ((0.5, 0.05, 0.95), None)   # Algorithm L draws 2 floats per acceptance: smaller grid


def float_policy(i):
    return FLOATS


def float_policy_uniform(i):
    return FLOATS_UNIFORM


def policy_for(cfg):
    return float_policy_uniform if cfg['cls'] == 'Uniform' else float_policy


def configs(tier):
    from ixai.storage import (BatchStorage, IntervalStorage, SequenceStorage,
                              UniformReservoirStorage, GeometricReservoirStorage)
    extra = 4 if tier == 'thorough' else 3
    out = []
    for st in (True, False):
        for mode in ('unique', 'dup', 'ynone'):
            if mode == 'ynone' and not st:
                continue        # unlabelled arrivals (y=None) mixed into a labelled stream
            dd = extra if mode == 'unique' else extra - 1
            out.append(dict(cls='Batch', k=None, st=st, p=None, depth=3 + dd - 1, mode=mode))
            out.append(dict(cls='Sequence', k=1, st=st, p=None, depth=1 + dd, mode=mode))
            for k in (1, 2, 3):
                out.append(dict(cls='Interval', k=k, st=st, p=None, depth=k + dd, mode=mode))
                out.append(dict(cls='Uniform', k=k, st=st, p=None, depth=k + dd - 1, mode=mode))
                for p in ('default', 0, 0.5, 1, 1.0):
                    out.append(dict(cls='Geometric', k=k, st=st, p=p, depth=k + dd, mode=mode))
    # checkpoint / restore: the storage is deep-copied (or pickled and restored) after t_f updates, the stream continues on the
    # copy; the copy must behave like the storage itself and the original must not change any more
    for kind in ('deepcopy', 'pickle'):
        for st in (True, False):
            for t_f in (1, 3):
                out.append(dict(cls='Batch', k=None, st=st, p=None, depth=5, mode='fork', fork=(t_f, kind)))
                out.append(dict(cls='Sequence', k=1, st=st, p=None, depth=4, mode='fork', fork=(t_f, kind)))
                for k in (2, 3):
                    out.append(dict(cls='Interval', k=k, st=st, p=None, depth=k + 3, mode='fork', fork=(t_f, kind)))
                    out.append(dict(cls='Uniform', k=k, st=st, p=None, depth=k + 2, mode='fork', fork=(t_f, kind)))
                    for p in ('default', 1):
                        out.append(dict(cls='Geometric', k=k, st=st, p=p, depth=k + 2, mode='fork', fork=(t_f, kind)))
    for expl in ('pfi', 'sage'):
        for storage, k in (('Uniform', 2), ('Geometric', 2), ('Interval', 2), ('Batch', None)):
            for strategy in ('joint', 'product'):
                out.append(dict(cls='through-explainer', expl=expl, storage=storage, k=k, st=(storage != 'Uniform'),
                                p=0.5 if storage == 'Geometric' else None, strategy=strategy, n=2 if expl == 'pfi' else 1,
                                depth=4 if tier != 'thorough' else 5, mode='unique'))
    return out


def make(cfg):
    from ixai.storage import (BatchStorage, IntervalStorage, SequenceStorage,
                              UniformReservoirStorage, GeometricReservoirStorage)
    c, k, st = cfg['cls'], cfg['k'], cfg['st']
    if c == 'Batch':
        return BatchStorage(store_targets=st)
    if c == 'Sequence':
        return SequenceStorage(store_targets=st)
    if c == 'Interval':
        return IntervalStorage(size=k, store_targets=st)
    if c == 'Uniform':
        return UniformReservoirStorage(size=k, store_targets=st)
    if cfg['p'] == 'default':
        return GeometricReservoirStorage(size=k, store_targets=st)
    return GeometricReservoirStorage(size=k, store_targets=st, constant_probability=cfg['p'])


def fz(x):
    return tuple(sorted(x.items()))


def check_state(cfg, storage, hist, tag):
    """Invariants of the property on the real object after len(hist) updates."""
    c, k, st = cfg['cls'], cfg['k'], cfg['st']
    n = len(hist)
    xs, ys = storage.get_data()
    xs, ys = list(xs), list(ys)
    want = n if k is None else min(n, k)

    def bad(key, what):
        raise Violation(f"C07/{c}/{key}", f"{c}(k={k}, store_targets={st}, p={cfg['p']}) after {n} updates "
                        f"({cfg['mode']} rows): {what}; stored x={xs} y={ys}; stream={hist}",
                        {'cfg': cfg})
    if len(storage) != want:
        bad('len', f"len(storage)={len(storage)} expected {want}")
    if len(xs) != want:
        bad('len-x', f"{len(xs)} stored instances, expected {want}")
    if st:
        if len(ys) != len(xs):
            bad('len-y', f"{len(ys)} stored targets for {len(xs)} instances")
        stored = Counter((fz(x), y) for x, y in zip(xs, ys))
        seen = Counter((fz(x), y) for x, y in hist)
        if stored - seen:
            bad('provenance', "stored (instance, target) pairs are not a sub-multiset of the arrivals "
                              "(misaligned target, duplicate or foreign row)")
    else:
        if len(ys) != 0:
            bad('targets-kept', f"{len(ys)} targets kept although store_targets=False")
        stored = Counter(fz(x) for x in xs)
        seen = Counter(fz(x) for x, _ in hist)
        if stored - seen:
            bad('provenance', "stored instances are not a sub-multiset of the arrivals")
    # deterministic storages: list reference model
    ref = None
    if c == 'Batch':
        ref = hist
    elif c in ('Interval', 'Sequence'):
        ref = hist[-k:]
    if ref is not None:
        if [fz(x) for x in xs] != [fz(x) for x, _ in ref]:
            bad('order', f"instances differ from the reference {[x for x, _ in ref]}")
        if st and ys != [y for _, y in ref]:
            bad('order-y', f"targets differ from the reference {[y for _, y in ref]}")


def driver_for(cfg, obs):
    depth = cfg['depth']
    unique = cfg['mode'] in ('unique', 'ynone', 'fork')

    def driver(run):
        storage = make(cfg)
        hist = []
        pattern = []
        prev = canon(storage)
        states = obs['states']
        edges = obs['edges']
        states.add(hash(prev))
        orig = orig_hist = None
        for t in range(depth):
            if cfg.get('fork') and t == cfg['fork'][0]:
                import copy as _copy
                import pickle as _pickle
                cp = choice.safe_copy(storage, cfg['fork'][1])
                if cp is not None:      # (a storage that cannot be copied / pickled at all: the scenario does not apply)
                    orig, orig_hist, storage = storage, list(hist), cp
                    check_state(cfg, storage, hist, 'copy')
            if unique:
                x = {'id': t, 'v': t % 2}
            else:
                x = {'v': run.pick((0, 1), 'letter')}
            y = 100 + t
            if cfg['mode'] == 'ynone' and run.pick((False, True), 'y-is-None'):
                y = None
            before = [fz(r) for r in list(storage.get_data()[0])]
            storage.update(dict(x), y)
            hist.append((x, y))
            check_state(cfg, storage, hist, t)
            cur = canon(storage)
            hc = hash(cur)
            states.add(hc)
            edges.add(hash((prev, cur)))
            prev = cur
            if unique and cfg['k'] is not None and t >= cfg['k']:
                after = [fz(r) for r in list(storage.get_data()[0])]
                if after == before:
                    pattern.append('-')
                else:
                    slot = [i for i in range(len(after)) if after[i] != before[i]]
                    pattern.append(str(slot[0]) if len(slot) == 1 else 'm')
        if orig is not None:
            # the object the copy was taken from received nothing after the fork
            check_state(dict(cfg, mode=f"original object, {cfg['fork'][1]} taken after {cfg['fork'][0]} updates and the COPY fed "
                                       f"{depth - cfg['fork'][0]} more"), orig, orig_hist, 'orig')
        return ''.join(pattern), tuple(fz(r) for r in list(storage.get_data()[0]))
    return driver


def explainer_driver(cfg):
    """The storage driven through an explainer + MarginalImputer (which reads the live rows): after every explain_one
    the storage must still hold observed data only (an imputer that writes into stored rows corrupts the storage)."""
    def driver(run):
        from ixai.explainer import IncrementalPFI, IncrementalSage
        from ixai.imputer import MarginalImputer
        storage = make(dict(cfg, cls=cfg['storage']))
        names = ['a', 'b', 'c']

        def model(x):
            return {'output': 3 * x['a'] - 2 * x['b'] + x['c'] * x['a']}

        def loss(y, p):
            return (y - p['output']) ** 2
        imp = MarginalImputer(model, cfg['strategy'], storage)
        cls = IncrementalPFI if cfg['expl'] == 'pfi' else IncrementalSage
        ex = cls(model, loss, names, storage=storage, imputer=imp, n_inner_samples=cfg['n'], smoothing_alpha=0.5)
        hist = []
        c2 = dict(cfg, cls=cfg['storage'], mode='unique')
        for t in range(cfg['depth']):
            x = {'a': 10 * t + 1, 'b': 10 * t + 2, 'c': 10 * t + 3}
            y = 100 + t
            ex.explain_one(dict(x), y)
            hist.append((x, y))
            check_state(c2, storage, hist, t)
        return '', tuple(fz(r) for r in list(storage.get_data()[0]))
    return driver


def tasks_for(cfg):
    if cfg.get('cls') == 'through-explainer':
        return [(cfg, ())]
    """Split the big Algorithm-L trees at the two constructor draws."""
    if cfg['cls'] == 'Uniform' and cfg['mode'] == 'unique':
        obs = {'states': set(), 'edges': set()}
        return [(cfg, r) for r in choice.frontier(driver_for(cfg, obs), 2, policy_for(cfg))]
    return [(cfg, ())]


def run_config(task):
    cfg, root = task
    obs = {'states': set(), 'edges': set()}
    patterns = set()
    finals = set()

    def on_leaf(run, res):
        patterns.add(res[0])
        finals.add(res)
    if cfg['cls'] == 'through-explainer':
        st = choice.explore(explainer_driver(cfg), on_leaf=on_leaf, bound=1, float_policy=float_policy_uniform)
        st.merge(choice.explore(explainer_driver(cfg), on_leaf=on_leaf, bound=1, float_policy=float_policy_uniform,
                                default_last=True))
    else:
        st = choice.explore(driver_for(cfg, obs), on_leaf=on_leaf, bound=None, root=root,
                            float_policy=policy_for(cfg), check_ownership=True)
    return dict(cfg=cfg, executions=st.executions, violations=st.violations, states=obs['states'],
                edges=obs['edges'], patterns=sorted(patterns), finals=len(finals),
                unscripted=st.unscripted, max_choices=st.max_choices)


def expected_patterns(cfg):
    """Replacement patterns that must have been reached (non-vacuity gate)."""
    k = cfg['k']
    horizon = cfg['depth'] - k
    if cfg['cls'] == 'Geometric':
        p = cfg['p']
        if p == 'default':
            p = Fraction(1, k)
        if p == 0:
            return {'-' * horizon}
        opts = [str(i) for i in range(k)]
        if p < 1:
            opts.append('-')
        import itertools
        return {''.join(w) for w in itertools.product(opts, repeat=horizon)}
    return None


def main(rep):
    cfgs = configs(rep.tier)
    tasks = [t for cfg in cfgs for t in tasks_for(cfg)]
    raw = choice.pmap(run_config, tasks)
    merged = {}
    for r in raw:            # merge the sub-trees of one config
        key = repr(r['cfg'])
        if key not in merged:
            merged[key] = r
        else:
            m = merged[key]
            m['executions'] += r['executions']
            m['violations'] += r['violations']
            m['states'] |= r['states']
            m['edges'] |= r['edges']
            m['patterns'] = sorted(set(m['patterns']) | set(r['patterns']))
            m['finals'] += r['finals']
            m['unscripted'] += r['unscripted']
    results = list(merged.values())
    states, edges = set(), set()
    for r in results:
        cfg = r['cfg']
        rep.add(evaluations=r['executions'], traces_validated_against_impl=r['executions'])
        rep.unscripted += r['unscripted']
        states |= r['states']
        edges |= r['edges']
        for key, what, detail, prefix in r['violations']:
            rep.violation(key, what, {'cfg': cfg, 'prefix': list(prefix)})
        if r['violations']:
            continue
        if cfg['mode'] == 'unique' and cfg['k'] is not None and cfg['cls'] != 'through-explainer':
            want = expected_patterns(cfg)
            got = set(r['patterns'])
            # a per-arrival threshold test + randrange reaches every pattern under the grid; an implementation that
            # transforms its draws (geometric waiting times, slot derived from the same uniform) reaches fewer: demand a
            # few of them, skips (if possible) and at least two different slots
            syms_want, syms_got = set(''.join(want or [])), set(''.join(got))
            slots_got = syms_got - {'-'}
            if want is not None and (len(want & got) < max(1, min(len(want), 8) // 2)
                                     or ('-' in syms_want and '-' not in syms_got)
                                     or len(slots_got) < min(2, len(syms_want - {'-'}))):
                raise choice.HarnessError(f"non-vacuity: {cfg} reached patterns {sorted(got)}, "
                                          f"missing {sorted(want - got)}")
            if cfg['cls'] == 'Uniform':
                # every slot replaced at some time, acceptance and skip at the first post-fill arrival
                flat = set(''.join(got))
                need = {str(i) for i in range(cfg['k'])} | {'-'}
                if not need <= flat:
                    raise choice.HarnessError(f"non-vacuity: {cfg} patterns {sorted(got)}")
            for pat in got:
                if set(pat) - {'-'}:
                    rep.mark_nontrivial([(cfg['cls'], cfg['k'], cfg['st'], str(cfg['p']), pat)])
        if cfg['cls'] in ('Uniform', 'Geometric') and len(rep.samples) < 4 and cfg['mode'] == 'unique' \
                and cfg['k'] == 2:
            rep.sample({'config': cfg, 'executions': r['executions'],
                        'replacement_patterns_reached': r['patterns'][:12],
                        'distinct_final_contents': r['finals']})
    rep.add(states=len(states), transitions=len(edges))
    rep.note(configs=len(cfgs), subtree_tasks=len(tasks), float_grid=list(FLOATS[0]),
             float_grid_uniform=list(FLOATS_UNIFORM[0]))
    rep.assume("random.random() answered from the reachability grid %s; randrange enumerated in full"
               % (list(FLOATS[0]),),
               "rows are dicts compared by value; a storage that copies rows is accepted",
               "capacity >= 1")
    return rep.finish(
        rule="full enumeration of update words x draw outcomes per config; invariants after every update; "
             "non-trivial = distinct (class,k,store_targets,p,replacement pattern) with at least one "
             "replacement after the fill phase")


def replay(data):
    from ixverif.choice import execute
    r = data['replay']
    cfg = r['cfg']
    if cfg.get('cls') == 'through-explainer':
        res = run_config((cfg, ()))
        if res['violations']:
            print(f"VIOLATION property=C07 replay=(reproduced)\n  {res['violations'][0][1]}")
            return 1
        print('replay: no violation on the current tree')
        return 0
    obs = {'states': set(), 'edges': set()}
    outs = []
    for _ in range(2):
        run, res, viol = execute(driver_for(cfg, obs), tuple(r['prefix']), policy_for(cfg))
        outs.append((viol.key, viol.what) if viol else None)
    if outs[0] != outs[1]:
        print("HARNESS-ERROR: replay is not deterministic")
        return 2
    if outs[0]:
        print(f"VIOLATION property=C07 replay=(reproduced)\n  {outs[0][1]}")
        return 1
    print("replay: no violation on the current tree")
    return 0
