"""C16 – normalised importances and confidence bounds are well-formed for all values.

Part A: every importance dict with 1..3 entries over a signed alphabet x numeric type (int, float,
Fraction, np.float64, np.float32, np.int64) x magnitude scale x mode, pushed through the public
get_normalized_importance_values of a real explainer: ratios preserved, sum / range == 1, zero normaliser
=> all 0.0, never NaN/inf.
Part B: every explainer state reached by the stream driver (PFI and SAGE, both modes, exact and float
passes): variances >= 0, confidence bound == (1-alpha)^t + sqrt(var*alpha/((2-alpha)*delta)), finite,
>= 0, non-increasing in delta; the reachable importance dicts also go through the Part A oracle.
"""
import itertools
import math
import sys
from fractions import Fraction as F

import numpy as np

from ixverif import choice
from ixverif.choice import Violation
from ixverif.explharness import Harness, alphabet
from checks import sage_common as sc

LEVEL = 'model_checking'
PID = 'C16'
EPS = sys.float_info.epsilon
TYPES = {'int': int, 'float': float, 'Fraction': F, 'np.float64': np.float64, 'np.float32': np.float32,
         'np.int64': np.int64}
VALUES = (-2, -1, 0, 1, 3)
DELTAS = (5e-324, 1e-310, 2.3e-308, F(1, 100), F(1, 2), 1)      # every delta in (0, 1], down to the smallest float


def finite(v):
    try:
        return math.isfinite(float(v))
    except (TypeError, ValueError, OverflowError):
        return False


def check_normalised(raw, out, mode, exact, where, tol_eps=EPS):
    """Oracle of the property for one dict. raw/out: dicts; exact: rational arithmetic expected."""
    def bad(key, what):
        raise Violation(f"{PID}/{key}", f"{where}: get_normalized_importance_values('{mode}') of {fmtd(raw)} = "
                                        f"{fmtd(out)}: {what}", {})
    if list(out.keys()) != list(raw.keys()) and set(out.keys()) != set(raw.keys()):
        bad('keys', "keys differ")
    vals = list(raw.values())
    exact = exact and all(isinstance(v, (int, F)) and not isinstance(v, bool) for v in vals) \
        and all(isinstance(v, (int, F)) for v in out.values())
    for k, v in out.items():
        if not finite(v):
            bad('nan-inf', f"entry {k!r} is {v!r}")
    rawx = [F(float(v)) if not isinstance(v, (int, F)) else F(v) for v in vals]
    factor = sum(rawx) if mode == 'sum' else max(rawx) - min(rawx)
    outs = [out[k] for k in raw]
    if not exact and factor != 0 and abs(factor) <= 16 * F(tol_eps) * sum(abs(v) for v in rawx):
        # the normaliser cancels to rounding level: whether it is zero depends on the summation order of the
        # floating-point type; both answers are acceptable (finite entries were already required)
        return 'cancelling'
    if factor == 0:
        for k, v in out.items():
            if not (v == 0):
                bad('zero-normaliser', f"the normaliser is zero, so every entry must be 0.0, but {k!r} is {v!r}")
        return 'zero'
    outx = [F(float(v)) if not isinstance(v, (int, F)) else F(v) for v in outs]
    scale = max(abs(v) for v in rawx) / abs(factor)
    cond = sum(abs(v) for v in rawx) / abs(factor)      # conditioning of the floating-point normaliser (sum / range)
    tol = 0 if exact else 8 * F(tol_eps) * max(1, scale) * (1 + len(rawx) * cond)
    # ratios (cross multiplication against the exact quotient)
    for r, o in zip(rawx, outx):
        if abs(o - r / factor) > tol * 2:
            bad('ratio', f"entries do not keep the ratios of the raw values (expected {float(r / factor)!r}, "
                         f"got {float(o)!r})")
    if mode == 'sum':
        if abs(sum(outx) - 1) > tol * len(outx) * 2:
            bad('sum', f"entries add up to {float(sum(outx))!r}, not 1")
    else:
        if abs(max(outx) - min(outx) - 1) > tol * 4:
            bad('range', f"range of the entries is {float(max(outx) - min(outx))!r}, not 1")
    return 'ok'


def fmtd(d):
    return '{' + ', '.join(f"{k!r}: {v!r}" for k, v in d.items()) + '}'


_PROBE = {}


def probe_explainer():
    """A real explainer whose importance_values property is overridden to return a chosen dict, so that
    arbitrary dicts reach the public get_normalized_importance_values."""
    if 'ex' not in _PROBE:
        from ixai.explainer import IncrementalPFI

        class Probe(IncrementalPFI):
            _probe_values = {}

            @property
            def importance_values(self):
                return dict(self._probe_values)
        _PROBE['ex'] = Probe(lambda x: {'output': 0}, lambda y, p: 0, ['a'])
    return _PROBE['ex']


def part_a_task(task):
    tname, scale_name = task
    conv = TYPES[tname]
    scale = {'1': 1, 'tiny': F(1, 10 ** 12), 'huge': 10 ** 12, 'mixed-tiny': F(1, 3 * 10 ** 10)}[scale_name]
    ex = probe_explainer()
    n = 0
    outcomes = set()
    viol = []
    for d in (1, 2, 3):
        for combo in itertools.product(VALUES, repeat=d):
            try:
                raw = {f"f{j}": conv(v * scale) if tname in ('float', 'Fraction', 'np.float64', 'np.float32')
                       else conv(v) for j, v in enumerate(combo)}
            except (TypeError, ValueError):
                continue
            for mode in ('sum', 'delta'):
                type(ex)._probe_values = raw
                n += 1
                where = f"values of type {tname} (scale {scale_name})"
                try:
                    with np.errstate(all='ignore'):
                        out = ex.get_normalized_importance_values(mode)
                    r = check_normalised(raw, out, mode, tname in ('int', 'Fraction') and False, where,
                                         tol_eps=float(np.finfo(np.float32).eps) if tname == 'np.float32' else EPS)
                    if tname == 'Fraction':
                        check_normalised(raw, out, mode, True, where)
                    outcomes.add((tname, scale_name, mode, r, tuple(sorted(map(float, out.values())))))
                except Violation as v:
                    if not any(v.key == k for k, _, _ in viol):
                        viol.append((v.key, v.what, {'type': tname, 'scale': scale_name, 'raw': [str(x) for x in combo],
                                                     'mode': mode}))
                except Exception as e:
                    key = f"{PID}/raised"
                    if not any(key == k for k, _, _ in viol):
                        viol.append((key, f"{where}: get_normalized_importance_values('{mode}') of {fmtd(raw)} raised "
                                          f"{type(e).__name__}: {e}", {'type': tname, 'scale': scale_name,
                                                                       'raw': [str(x) for x in combo], 'mode': mode}))
    return dict(part='A', n=n, outcomes=outcomes, violations=viol)


# --------------------------------------------------------------------------------------------- part B
def bound_reference(alpha, t, var, delta):
    a = F(alpha) if not isinstance(alpha, float) else F(alpha)
    base = float((1 - a) ** t)
    v = F(var) * a / ((2 - a) * F(delta))          # exact rational; its square root via integer arithmetic (no overflow)
    root = math.isqrt((v.numerator << 240) // v.denominator) / (1 << 120) if v > 0 else 0.0
    return base + root


def part_b_driver(cfg, T, mode):
    conv = (lambda v: float(v) * 1.1) if mode == 'float' else None

    def driver(run):
        h = Harness(cfg, spy_imputer=False, spy_storage=False, conv=conv)
        ex = h.expl
        letters = alphabet(h.names, cfg['model'], 3)
        if mode == 'float':
            letters = [({k: float(v) for k, v in x.items()}, float(y) if not isinstance(y, str) else y)
                       for x, y in letters]
        states = []
        alpha = cfg['alpha']
        import copy as _copy
        fork_at = T - 2
        original = ex
        for t in range(T):
            x, y = letters[run.choose(len(letters), 'obs', None, 0)]
            if t == fork_at + 1:
                # a deep copy taken one step earlier is checked while only the ORIGINAL moves on (and vice versa below)
                fork = choice.safe_copy(original)
                original.explain_one(dict(x), y)
                ex = fork if fork is not None else original
            else:
                ex.explain_one(dict(x), y)
            where = f"{type(ex).__name__}[{sc.cfg_desc(cfg)}] ({mode} pass) after call {t + 1}" + \
                (" (deep copy of the explainer taken before the original was fed one more observation)" if ex is not original else "")
            var = ex.variances
            if not var:
                continue
            for k, v in var.items():
                if not (v >= 0) or not finite(v):
                    raise Violation(f"{PID}/negative-variance", f"{where}: variance of {k!r} is {v!r}", {})
            prev = None
            for delta in DELTAS:
                try:
                    cb = ex.get_confidence_bound(delta if (mode == 'exact' or isinstance(delta, float)) else float(delta))
                except Exception as e:
                    raise Violation(f"{PID}/bound-raised", f"{where}: get_confidence_bound({delta}) raised "
                                                           f"{type(e).__name__}: {e}", {})
                if set(cb.keys()) != set(h.names) and not all(n in cb for n in h.names):
                    raise Violation(f"{PID}/bound-keys", f"{where}: confidence bound keys {list(cb)}", {})
                for n in h.names:
                    got = cb[n]
                    want = bound_reference(alpha, ex.seen_samples, var[n], delta)
                    if want > 1e150:
                        continue    # var*alpha/((2-alpha)*delta) itself exceeds the float range: the literal formula overflows
                    if not finite(got) or not (got >= 0):
                        raise Violation(f"{PID}/bound-not-finite", f"{where}: bound of {n!r} for delta={delta} is "
                                                                   f"{got!r}", {})
                    if abs(float(got) - want) > 32 * EPS * max(1.0, abs(want)):
                        raise Violation(f"{PID}/bound-formula", f"{where}: get_confidence_bound({delta})[{n!r}] = "
                                        f"{float(got)!r}, formula (1-a)^t + sqrt(var*a/((2-a)*delta)) with a={alpha}, "
                                        f"t={ex.seen_samples}, var={float(var[n])!r} gives {want!r}", {})
                    if prev is not None and float(got) > float(prev[n]) * (1 + 4 * EPS) + 4 * EPS:
                        raise Violation(f"{PID}/bound-not-monotone", f"{where}: bound of {n!r} increases with delta", {})
                prev = cb
            # a caller edits the dicts the explainer handed out (return value, importance_values, variances) in place:
            # the explainer's later answers must still describe the tracked state
            private = {k: v for k, v in ex.importance_values.items()}
            private_var = {k: v for k, v in ex.variances.items()}
            for handed in (ex.importance_values, ex.variances):
                for k in list(handed):
                    handed[k] = 12345
            raw = ex.importance_values
            if any(not (raw[k] == private[k]) for k in private) or any(not (ex.variances[k] == private_var[k]) for k in private_var):
                raise Violation(f"{PID}/handed-out-dict-aliases-state", f"{where}: after a caller edited the dict returned by "
                                f"importance_values / variances in place, the explainer reports {fmtd(dict(raw))} / "
                                f"{fmtd(dict(ex.variances))} instead of {fmtd(private)} / {fmtd(private_var)}", {})
            for m in ('sum', 'delta'):
                with np.errstate(all='ignore'):
                    out = ex.get_normalized_importance_values(m)
                check_normalised(raw, out, m, mode == 'exact', where)
            states.append(tuple(sorted((repr(k), float(v)) for k, v in var.items())))
        return tuple(states)
    return driver


def part_b_task(task):
    cfg, T, mode = task
    seen = set()
    n = [0]

    def on_leaf(run, states):
        seen.update(states)
        n[0] += len(states)
    drv = part_b_driver(cfg, T, mode)
    st = choice.explore(drv, on_leaf=on_leaf, bound=1)
    viol = [(k, w, {'cfg': cfg, 'T': T, 'mode': mode, 'prefix': list(p), 'default_last': False})
            for k, w, d, p in st.violations]
    if not viol:
        st2 = choice.explore(drv, on_leaf=on_leaf, bound=1, default_last=True)
        st.merge(st2)
        viol = [(k, w, {'cfg': cfg, 'T': T, 'mode': mode, 'prefix': list(p), 'default_last': True})
                for k, w, d, p in st2.violations]
    return dict(part='B', n=st.executions, checked=n[0], outcomes=seen, violations=viol, cfg=cfg)


def plan(tier):
    tasks = [('A', (t, s)) for t in TYPES for s in ('1', 'tiny', 'huge', 'mixed-tiny')
             if not (t in ('int', 'np.int64') and s != '1')]
    T = 4 if tier == 'thorough' else 3
    for expl in ('pfi', 'sage'):
        for dyn in (False, True):
            for alpha in (F(1, 4), 1, 0.001):
                for d in (1, 2, 3):
                    for mode in ('exact', 'float'):
                        for st in ('Batch', 'Geometric') if tier == 'thorough' else ('Batch',):
                            cfg = dict(expl=expl, dynamic=dyn, alpha=alpha if mode == 'exact' or alpha == 0.001
                                       else float(alpha), n_inner=2 if d == 2 else 1, d=d, storage=st,
                                       imputer='joint', names='str', lbib=False,
                                       model='scalar' if d <= 2 else 'multi', loss='sq')
                            tasks.append(('B', (cfg, T, mode)))
    return tasks


def run_task(task):
    part, arg = task
    return part_a_task(arg) if part == 'A' else part_b_task(arg)


def main(rep):
    tasks = plan(rep.tier)
    results = choice.pmap(run_task, tasks, chunksize=1)
    states = set()
    trans = 0
    for r in results:
        rep.add(evaluations=r['n'], traces_validated_against_impl=r['n'])
        for key, what, detail in r['violations']:
            rep.violation(key, what, dict(detail, part=r['part']))
        states |= {(r['part'], o) for o in r['outcomes']}
        trans += r['n'] if r['part'] == 'A' else r['checked']
        if r['part'] == 'B' and len(rep.samples) < 2:
            rep.sample({'part': 'B', 'config': sc.cfg_desc(r['cfg']), 'executions': r['n'],
                        'explainer_states_checked': r['checked']})
    rep.sample({'part': 'A', 'dicts': "all 1..3-entry dicts over (-2,-1,0,1,3)", 'types': list(TYPES),
                'scales': ['1', '1e-12', '1e12', '1/(3e10)'], 'modes': ['sum', 'delta']})
    rep.mark_nontrivial(states)
    rep.add(states=len(states), transitions=trans)
    rep.note(tasks=len(tasks))
    rep.assume("Part A reaches the normaliser through the public get_normalized_importance_values of a real "
               "explainer whose importance_values property is overridden in a subclass",
               "float types: ratios / sum / range within 16 ulp of the type; Fractions: exact",
               "confidence bound checked only once variances exist; formula within 16 ulp")
    return rep.finish(
        rule="Part A: all small dicts x 6 numeric types x 4 magnitude scales x 2 modes; Part B: all streams x "
             "draws (<=1 deviation, two base executions) of PFI/SAGE configs, every reached state; non-trivial = "
             "distinct observed outcomes (normalised vectors / variance states); transitions = dicts / states checked")


def replay(data):
    r = data['replay']
    if r.get('part') == 'A':
        res = part_a_task((r['type'], r['scale']))
        if res['violations']:
            print(f"VIOLATION property={PID} replay=(reproduced)\n  {res['violations'][0][1]}")
            return 1
        print("replay: no violation on the current tree")
        return 0
    cfg = dict(r['cfg'])
    if isinstance(cfg['alpha'], str):
        cfg['alpha'] = F(cfg['alpha'])
    run, res, viol = choice.execute(part_b_driver(cfg, r['T'], r['mode']), tuple(r['prefix']),
                                    default_last=bool(r.get('default_last')))
    if viol:
        print(f"VIOLATION property={PID} replay=(reproduced)\n  {viol.what}")
        return 1
    print("replay: no violation on the current tree")
    return 0
