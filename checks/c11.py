"""C11 – SlidingWindowTracker reports statistics of exactly the last k values.

For every window size k every stream up to length 3k+2 over a small alphabet (plus the position-coded
stream 2^t, in which every window content has a unique sum) is pushed through the real tracker (depth-first
with shared prefixes; construction is part of every run); after EVERY update mean / var / std / get() are
compared with the statistics of the last min(n, k) values.
"""
import copy
import sys
from fractions import Fraction as F

import numpy as np

from ixverif import choice
from ixverif.choice import Violation
from ixverif.refmodels import mean_stat, var_stat

LEVEL = 'model_checking'
PID = 'C11'
EPS = sys.float_info.epsilon


def check(tr, hist, k, where):
    win = hist[-k:]
    xs = [F(float(x)) if isinstance(x, np.floating) else F(x) for x in win]
    # values supplied as narrow NumPy floats: accuracy is demanded relative to the narrowest type in the window only
    # (finite results are demanded whatever the type: the statistics of finite values are finite)
    EPS = max([sys.float_info.epsilon] + [float(np.finfo(type(x)).eps) for x in win if isinstance(x, np.floating)])
    m, v = mean_stat(xs), var_stat(xs)
    scale = max([1.0] + [abs(float(x)) for x in win])
    maxdev = max(abs(float(x - m)) for x in xs)
    n = len(win)
    tol_m = 8 * EPS * scale * n
    # a two-pass variance is accurate relative to the squared DEVIATIONS (plus the squared rounding error of the mean)
    tol_v = 64 * (EPS * maxdev * maxdev + (EPS * scale) ** 2 * n) + 1e-300
    sd = float(v) ** 0.5
    tol_s = tol_v / (2 * sd) if sd > 0 and tol_v < sd * sd else tol_v ** 0.5
    for name, got, want, tol in (('mean', tr.mean, float(m), tol_m), ('get()', tr.get(), float(m), tol_m),
                                 ('var', tr.var, float(v), tol_v), ('std', tr.std, sd, tol_s + 4 * EPS * sd)):
        if not (abs(float(got) - want) <= tol):
            raise Violation(f"{PID}/window-{name.strip('()')}", f"{where}: {name}={got!r} but the last {len(win)} values "
                            f"{win} have {name}={want!r} (tolerance {tol:.3e})", {})


def readmask_task(task):
    """Statistics are read only at chosen times: every read mask over a position-coded stream, and every read mask over
    EVERY stream of a small alphabet (so that the newest value, the write phase or the window sum at two reads may
    coincide while the window content differs): a tracker that buffers updates lazily or caches what it last reported
    must still report the last k values whenever it is asked."""
    import itertools
    from ixai.utils.tracker import SlidingWindowTracker
    _, k, L = task[:3]
    alphabet = task[3] if len(task) > 3 else None
    n = 0
    viol = []
    streams = [None] if alphabet is None else itertools.product(alphabet, repeat=L)
    try:
        for stream in streams:
            for mask in range(1 << L):
                tr = SlidingWindowTracker(k)
                hist = []
                for t in range(L):
                    v = float(3 ** (t % 20) + t) if stream is None else stream[t]
                    tr.update(v)
                    hist.append(v)
                    if mask >> t & 1 or t == L - 1:
                        n += 1
                        check(tr, hist, k, f"SlidingWindowTracker({k}) read after updates {[i + 1 for i in range(t + 1) if mask >> i & 1 or i == t]} "
                                           f"of the stream {hist}")
    except Exception as e:
        v = e if isinstance(e, Violation) else choice.library_exception(e, f'for SlidingWindowTracker({k})')
        viol.append((v.key, v.what, {}, ()))
    return dict(task=list(task), transitions=n, states=(1 << L) * (1 if alphabet is None else len(alphabet) ** L), violations=viol)


def run_task(task):
    from ixai.utils.tracker import SlidingWindowTracker
    if task[0] == 'readmask':
        return readmask_task(task)
    k, alphabet, L, coded = task
    n = [0]
    states = set()
    viol = []

    def rec(tr, hist):
        if len(hist) == L:
            return
        for v in alphabet:
            t2 = copy.deepcopy(tr)
            t2.update(v)
            h2 = hist + [v]
            n[0] += 1
            check(t2, h2, k, f"SlidingWindowTracker({k}) after stream {h2}")
            states.add((k, tuple(h2[-k:]), len(h2) % k, min(len(h2), 3 * k)))
            rec(t2, h2)
    try:
        try:
            tr = SlidingWindowTracker(k)
        except Exception as e:
            raise Violation(f"{PID}/construction", f"SlidingWindowTracker({k}) cannot be constructed on NumPy "
                                                   f"{np.__version__}: {type(e).__name__}: {e}", {})
        rec(tr, [])
        tr = SlidingWindowTracker(k)
        hist = []
        for t in range(coded):
            for val in (2 ** (t % 40), -3 * (t + 1), 0.5 * t):
                pass
            v = float(2 ** (t % 40))
            tr.update(v)
            hist.append(v)
            n[0] += 1
            check(tr, hist, k, f"SlidingWindowTracker({k}) after the position-coded stream 2^t, t<{t + 1}")
    except Exception as e:
        v = e if isinstance(e, Violation) else choice.library_exception(e, f'for SlidingWindowTracker({k})')
        viol.append((v.key, v.what, {}, ()))
    return dict(task=list(task), transitions=n[0], states=len(states), violations=viol)


def plan(tier):
    deep = tier == 'thorough'
    tasks = []
    for k in (1, 2, 3):
        tasks.append((k, (1, 0, -2), 3 * k + 2 if (deep or k < 3) else 3 * k, 5 * k + 3))
    tasks.append((4, (1, -2), 14 if deep else 11, 23))
    tasks.append((2, (0.5, 1e9, -1e-3, 7), 8 if deep else 6, 13))
    tasks.append((5, (1, 0), 12, 31))
    for k in (2, 3, 4):
        tasks.append(('readmask', k, 3 * k + 1 if (deep or k < 4) else 11))
    # every read schedule x every stream over a small alphabet (equal newest values / equal sums at two reads)
    tasks.append(('readmask', 2, 7 if deep else 6, (0, 1)))
    tasks.append(('readmask', 3, 8 if deep else 7, (0, 1)))
    tasks.append(('readmask', 2, 5, (1, 0, -2)))
    tasks.append(('readmask', 4, 9 if deep else 7, (0, 1)))
    tasks.append((2, (1e9, 1e9 + 0.1, 1e9 + 0.2), 6 if deep else 5, 7))      # large offset, small spread
    tasks.append((3, (1e9, 1e9 + 0.1, -1e9), 7 if deep else 6, 7))
    # values supplied as narrow NumPy floats (whose squares leave the range of their own type) and mixed with Python floats
    tasks.append((2, (np.float16(300), np.float16(-200), np.float16(0.5)), 5, 5))
    tasks.append((3, (np.float16(300), np.float16(-250), 1.0), 6 if deep else 5, 5))
    tasks.append((2, (np.float32(3e19), np.float32(-3e19), np.float32(1.5)), 5, 5))
    return tasks


def main(rep):
    tasks = plan(rep.tier)
    results = choice.pmap(run_task, tasks, chunksize=1)
    for r in results:
        rep.add(evaluations=r['transitions'], traces_validated_against_impl=r['transitions'], transitions=r['transitions'],
                states=r['states'])
        for key, what, detail, prefix in r['violations']:
            rep.violation(key, what, {'task': r['task']})
        rep.mark_nontrivial([(r['task'][0], i) for i in range(r['states'])])
        rep.sample({'window_k': r['task'][0], 'alphabet': r['task'][1], 'max_stream_length': r['task'][2],
                    'updates_checked': r['transitions'], 'distinct (window content, write phase) states': r['states']})
    rep.add(states=0)
    rep.assume(f"decided for the installed NumPy {np.__version__} only", "values compared within 8 eps * window * scale")
    return rep.finish(
        rule="all streams up to 3k+2 (k<=3; shorter alphabets for k=4,5) over small alphabets incl. mixed magnitudes, plus "
             "the position-coded stream; every prefix checked; states = distinct (k, window content, write phase, length "
             "class); transitions = real update calls")


def replay(data):
    r = run_task(tuple(tuple(x) if isinstance(x, list) else x for x in data['replay']['task']))
    if r['violations']:
        print(f"VIOLATION property={PID} replay=(reproduced)\n  {r['violations'][0][1]}")
        return 1
    print("replay: no violation on the current tree")
    return 0
