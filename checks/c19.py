"""C19 – TreeStorage reservoirs track current leaves; TreeImputer uses observed values.

Streams are enumerated over a MACRO-operation alphabet (a block = m observations of one of 4 concepts over
1 categorical + 2 numerical features; m in {40, 150}): every block word up to depth 3 (quick: 2; thorough: 3), plus a
drift sweep of all pairs of long blocks under 20 (40) fixed block seeds x storage configurations (max_depth, grace_period,
leaf_reservoir_length).  The invariant monitor runs after EVERY single update, so every prefix of every word
is a checked state.  At every block end TreeImputer is probed: all subsets x modes x n_samples x ALL
outcomes of its random draws (choice-tree explorer on the live storage).
"""
import itertools
import math
import random as _random

from ixverif import choice
from ixverif.canon import canon
from ixverif.choice import Violation

LEVEL = 'model_checking'
PID = 'C19'
CONCEPTS = ('linear', 'flipped', 'independent', 'step', 'stepdeep', 'stepflip')
NAMES = ['c1', 'n1', 'n2']


def gen_block(concept, m, seed, start):
    rng = _random.Random(f"{seed}/{concept}/{m}/{start}")
    out = []
    for i in range(m):
        n1 = round(rng.random(), 6)
        noise = (rng.random() - 0.5) * 0.1
        if concept == 'linear':
            n2 = 2 * n1 + noise
            c1 = 1.0 if n1 > 0.5 else 2.0
        elif concept == 'flipped':
            n2 = -2 * n1 + noise
            c1 = 2.0 if n1 > 0.5 else 1.0
        elif concept == 'independent':
            n2 = rng.random() * 4 - 2
            c1 = float(rng.randrange(1, 4))
        elif concept == 'stepdeep':      # same first split as 'step', deeper structure on the left side
            c1 = float(rng.randrange(1, 3))
            n2 = 5.0 + noise if n1 > 0.3 else ((2.0 if c1 == 1.0 else -4.0) + noise)
        elif concept == 'stepflip':      # same split point, opposite sign, no deeper structure
            c1 = float(rng.randrange(1, 3))
            n2 = -5.0 + noise if n1 > 0.3 else 5.0 + noise
        else:
            n2 = 5.0 + noise if n1 > 0.3 else -5.0 + noise
            c1 = 3.0 if n2 > 0 else 1.0
        out.append({'c1': c1, 'n1': n1, 'n2': round(n2, 6)})
    return out


def leaves_of(root):
    """Independent walk of the tree: list of leaf node objects."""
    out, stack = [], [root]
    while stack:
        node = stack.pop()
        ch = getattr(node, 'children', None)
        if ch:
            stack.extend(ch)
        else:
            out.append(node)
    return out


def route(root, x):
    node = root
    for _ in range(200):
        ch = getattr(node, 'children', None)
        if not ch:
            return node
        node = node.next(x)
    raise RuntimeError("routing did not terminate")


def bad(key, what):
    raise Violation(f"{PID}/{key}", what, {})


def monitor(storage, cfg, arrivals, where):
    """Invariants of the property after one update."""
    from ixai.storage.tree_storage import get_all_tree_paths
    n = len(arrivals)
    if len(storage) != n:
        bad('len', f"{where}: len(storage)={len(storage)} after {n} updates")
    newest = arrivals[-1]
    for feat in NAMES:
        model, _ = storage(feat)
        root = model._root
        res = storage.data_reservoirs[feat]
        paths = get_all_tree_paths(root)
        leaves = leaves_of(root)
        if len(set(paths)) != len(leaves):
            raise choice.HarnessError(f"{where}: {len(set(paths))} tree paths but {len(leaves)} leaves in an independent walk")
        stale = [k for k in res if k not in paths]
        if stale:
            bad('stale-reservoir', f"{where}: feature {feat!r} keeps {len(stale)} reservoir(s) for leaves that are no "
                                   f"longer in its current tree ({len(res)} reservoirs, {len(paths)} current leaves)")
        for k, r in res.items():
            rows = list(r.get_data()[0])
            if len(rows) > cfg['leaf_len']:
                bad('capacity', f"{where}: a reservoir of feature {feat!r} holds {len(rows)} rows, capacity {cfg['leaf_len']}")
            for row in rows:
                if set(row.keys()) != set(NAMES):
                    bad('incomplete-row', f"{where}: reservoir of {feat!r} holds an incomplete data point {row}")
                if not any(row is a or row == a for a in arrivals):
                    bad('foreign-row', f"{where}: reservoir of {feat!r} holds {row}, which was never observed")
        x_wo = {k: v for k, v in newest.items() if k != feat}
        key = storage.get_path_through_tree(root, x_wo)
        leaf = route(root, x_wo)
        if not key.endswith(str(leaf) + key[len(key) - len("|STOP|"):]) and str(leaf) not in key:
            raise choice.HarnessError(f"{where}: path id does not end at the independently routed leaf")
        rows = list(res[key].get_data()[0]) if key in res else None
        if rows is None or not any(r is newest or r == newest for r in rows):
            bad('newest-not-stored', f"{where}: the newest observation {newest} is not in the reservoir of the leaf it is "
                                     f"routed to for feature {feat!r} (reservoir: {rows})")


# ------------------------------------------------------------------------------------ imputer probes
class LogModel:
    def __init__(self):
        self.inputs = []

    def __call__(self, x):
        if isinstance(x, dict):
            self.inputs.append(dict(x))
            return {'output': x['n1'] * 2 - x['n2'] + x['c1']}
        return [self(r) for r in x]


def storage_image(storage):
    img = []
    for feat in NAMES:
        model, _ = storage(feat)
        res = storage.data_reservoirs[feat]
        img.append((feat, [tuple(sorted(r.items())) for rv in res.values() for r in list(rv.get_data()[0])],
                    len(leaves_of(model._root)), getattr(model, 'n_nodes', None), len(storage)))
    return img


def probe_driver(storage, x, subset, use_storage, direct, n, seen_classes, persistent=None, xobj=None):
    def driver(run):
        from ixai.imputer import TreeImputer
        if persistent is not None:      # ONE imputer object used over the whole stream (before and after drifts)
            imp, model = persistent
            model.inputs = []
        else:
            model = LogModel()
            imp = TreeImputer(model, storage_object=storage, direct_predict_numeric=direct, use_storage=use_storage)
        xin = dict(x) if xobj is None else xobj     # xobj: a caller-owned dict (content == x) that is re-used between calls
        sub = list(subset)
        preds = imp.impute(feature_subset=sub, x_i=xin, n_samples=n)
        where = (f"TreeImputer(use_storage={use_storage}, direct_predict_numeric={direct}).impute({subset}, x={x}, "
                 f"n_samples={n})")
        if xin != x:
            bad('imputer-x-modified', f"{where}: the instance was modified to {xin}")
        if sub != list(subset):
            bad('imputer-subset-modified', f"{where}: the subset was modified to {sub}")
        if len(preds) != n:
            bad('imputer-n-predictions', f"{where}: {len(preds)} predictions returned")
        for inp in model.inputs:
            for f in NAMES:
                if f not in subset and inp[f] != x[f]:
                    bad('imputer-other-feature', f"{where}: model input {inp} differs from the instance in {f!r}")
            for f in subset:
                v = inp[f]
                if use_storage:
                    m_, _ = storage(f)
                    key = storage.get_path_through_tree(m_._root, x)
                    res = storage.data_reservoirs[f]
                    if key in res:
                        vals = [r[f] for r in list(res[key].get_data()[0])]
                        if not any(v == w for w in vals):
                            bad('imputer-not-from-leaf', f"{where}: imputed {f!r}={v!r} is not a value held in the "
                                                         f"reservoir of the leaf the instance is routed to ({vals})")
                        continue
                if f == 'c1' and not any(v == c for c in seen_classes):
                    bad('imputer-unseen-class', f"{where}: imputed categorical value {v!r} was never observed "
                                                f"(classes {sorted(seen_classes)})")
                if f != 'c1' and not (isinstance(v, (int, float)) or hasattr(v, 'dtype')) or (f != 'c1' and not math.isfinite(float(v))):
                    bad('imputer-non-finite', f"{where}: imputed numeric value {v!r}")
        return tuple(tuple(sorted(i.items())) for i in model.inputs)
    return driver


def probe(storage, x, seen_classes, stats, deep):
    before = storage_image(storage)
    subsets = [list(c) for k in range(4) for c in itertools.combinations(NAMES, k)]
    for subset in subsets:
        for use_storage, direct in ((True, False), (False, False), (False, True), (True, True)):
            for n in ((1, 2) if len(subset) <= 2 else (1,)):
                drv = probe_driver(storage, x, subset, use_storage, direct, n, seen_classes)
                outs = set()
                st = choice.explore(drv, on_leaf=lambda run, res: outs.add(res), bound=None if len(subset) * n <= 3 else 2,
                                    max_exec=4000)
                stats['probe_execs'] += st.executions
                stats['probe_outcomes'] += len(outs)
                if st.violations:
                    v = st.violations[0]
                    raise Violation(v[0], v[1], {})
                if storage_image(storage) != before:
                    bad('imputer-storage-modified', f"TreeImputer(use_storage={use_storage}).impute({subset}) modified the storage")


# ------------------------------------------------------------------------------------ driver
def run_word(cfg, word, seed, do_probe, stats):
    from ixai.storage import TreeStorage
    storage = TreeStorage(cat_feature_names=['c1'], num_feature_names=['n1', 'n2'], max_depth=cfg['max_depth'],
                          leaf_reservoir_length=cfg['leaf_len'], grace_period=cfg['grace'], seed=11)
    arrivals = []
    classes = set()
    t = 0
    n_leaves_max = 0
    from ixai.imputer import TreeImputer
    pm = LogModel()
    persistent = (TreeImputer(pm, storage_object=storage, direct_predict_numeric=False, use_storage=True), pm)
    xbuf = {}
    for bi, (concept, m) in enumerate(word):
        for x in gen_block(concept, m, seed, t):
            if cfg.get('rep') == 'bigint':
                # a numerical feature holding integers beyond 2**53 (ids, nanosecond timestamps): not representable as floats
                x = dict(x, n1=1_700_000_000_000_000_000 + int(round(x['n1'] * 10 ** 6)) * 1001)
            if t and t % 4 == 0:
                # the long-lived imputer is used before every 4th update (default answers of its draws)
                sub = [NAMES[(t // 4) % 3], NAMES[(t // 4 + 1) % 3]] if (t // 4) % 2 else [NAMES[(t // 4) % 3]]
                run_, res_, v_ = choice.execute(probe_driver(storage, dict(x), sub, True, False, 1 + (t // 4) % 2, classes,
                                                             persistent), (), None, False)
                stats['probe_execs'] += 1
                if v_ is not None:
                    raise v_
                # ... and on ONE caller-owned instance dict that is overwritten in place between consecutive calls (earlier
                # arrivals, then the current one; no storage update in between): routing follows the content
                for src in (arrivals[t // 2], arrivals[-1], arrivals[t // 3], x):
                    xbuf.clear()
                    xbuf.update(src)
                    run_, res_, v_ = choice.execute(probe_driver(storage, dict(xbuf), sub, True, False, 1 + (t // 4) % 2,
                                                                 classes, persistent, xbuf), (), None, False)
                    stats['probe_execs'] += 1
                    if v_ is not None:
                        raise v_
            storage.update(x)
            arrivals.append(x)
            classes.add(x['c1'])
            t += 1
            monitor(storage, cfg, arrivals, f"TreeStorage(max_depth={cfg['max_depth']}, grace_period={cfg['grace']}, "
                                            f"leaf_reservoir_length={cfg['leaf_len']}) after update {t} of block word "
                                            f"{[c + '(' + str(k) + ')' for c, k in word]}")
            stats['updates'] += 1
        stats['states'].add((tuple(word[:bi + 1]), tuple(len(storage.data_reservoirs[f]) for f in NAMES)))
        n_leaves_max = max(n_leaves_max, max(len(storage.data_reservoirs[f]) for f in NAMES))
        if do_probe:
            probe(storage, dict(arrivals[-1 - (bi % 3)]), classes, stats, False)
    return n_leaves_max


def run_task(task):
    cfg, words, seed, do_probe = task
    stats = {'updates': 0, 'states': set(), 'probe_execs': 0, 'probe_outcomes': 0}
    viol = []
    multi = 0
    for word in words:
        try:
            nl = run_word(cfg, word, seed, do_probe, stats)
            if nl > 1:
                multi += 1
        except Violation as v:
            if not any(v.key == k for k, _, _, _ in viol):
                viol.append((v.key, v.what, {}, word))
            if len(viol) >= 3:
                break
    return dict(cfg=cfg, seed=seed, words=len(words), updates=stats['updates'], states=len(stats['states']),
                probe_execs=stats['probe_execs'], probe_outcomes=stats['probe_outcomes'], violations=viol,
                multi_leaf_words=multi)


def plan(tier, seed):
    deep = tier == 'thorough'
    letters = [(c, m) for c in CONCEPTS for m in (40, 150)]
    cfgs = [dict(max_depth=3, grace=5, leaf_len=4), dict(max_depth=1, grace=2, leaf_len=1)]
    if deep:
        cfgs += [dict(max_depth=3, grace=2, leaf_len=1), dict(max_depth=1, grace=5, leaf_len=4),
                 dict(max_depth=3, grace=2, leaf_len=4), dict(max_depth=5, grace=10, leaf_len=2)]
    words = [w for d in (1, 2) for w in itertools.product(letters, repeat=d)]
    if deep:
        words += [w for w in itertools.product(letters, repeat=3) if sum(m for _, m in w) <= 340]
    tasks = []
    for ci, cfg in enumerate(cfgs):
        chunk = 8
        for i in range(0, len(words), chunk):
            tasks.append((cfg, words[i:i + chunk], seed, ci < 2 and (i // chunk) % 3 == 0))
    single = [w for w in words if len(w) == 1]
    tasks.append((dict(cfgs[0], rep='bigint'), single[:6], seed, True))
    tasks.append((dict(cfgs[1], rep='bigint'), single[6:], seed, True))
    # drift sweep: every pair (and, in thorough, triple) of long blocks under many block seeds - restructuring of the
    # adaptive trees (branch replaced / pruned by the drift detector) is a rare event of the block generator
    long = [(c, 150) for c in CONCEPTS]
    sweep = list(itertools.product(long, repeat=2))
    for s in range(40 if deep else 20):
        for i in range(0, len(sweep), 6):
            tasks.append((cfgs[0], sweep[i:i + 6], 1000 + s, False))
    if deep:
        for s in range(8):
            for i in range(0, len(sweep), 6):
                tasks.append((dict(max_depth=5, grace=5, leaf_len=4), sweep[i:i + 6], 1000 + s, False))
        w3 = [w for w in itertools.product(long, repeat=3) if len({c for c, _ in w}) == 3]
        for s in range(2):
            for i in range(0, len(w3), 4):
                tasks.append((cfgs[0], w3[i:i + 4], 2000 + s, False))
    return tasks


def main(rep):
    tasks = plan(rep.tier, rep.seed)
    results = choice.pmap(run_task, tasks, chunksize=1)
    per_cfg = {}
    for r in results:
        rep.add(evaluations=r['words'], traces_validated_against_impl=r['words'], states=r['updates'],
                transitions=r['updates'] + r['probe_execs'])
        for key, what, detail, word in r['violations']:
            rep.violation(key, what, {'cfg': r['cfg'], 'word': [list(w) for w in word], 'seed': r['seed']})
        k = str(r['cfg'])
        c = per_cfg.setdefault(k, {'words': 0, 'updates': 0, 'multi_leaf_words': 0, 'probe_execs': 0})
        for f in c:
            c[f] += r[f]
        rep.mark_nontrivial([(k, i) for i in range(r['states'])] + [(k, 'probe', i) for i in range(min(r['probe_outcomes'], 100))])
    for k, c in per_cfg.items():
        if not rep.violations and c['multi_leaf_words'] == 0:
            raise choice.HarnessError(f"non-vacuity: no block word grew a tree with more than one leaf for {k}")
        rep.sample({'storage_config': k, **c}, limit=12)
    rep.note(block_letters=[f"{c}({m})" for c in CONCEPTS for m in (40, 150)], block_seed=rep.seed)
    rep.assume("streams are words over 8 block letters (4 concepts x 2 lengths), block contents from a private generator "
               "seeded by VERIF_SEED; streams outside this block language are not covered",
               "tree seed fixed (11); river 0.26.1 Hoeffding adaptive trees as installed",
               "states = single updates after which all invariants were evaluated")
    return rep.finish(
        rule="all block words up to the depth x storage configs, invariants after every single update; TreeImputer probes "
             "at block ends with all outcomes of its draws; non-trivial = distinct (config, word prefix, reservoir counts) "
             "and distinct probe outcomes")


def replay(data):
    r = data['replay']
    stats = {'updates': 0, 'states': set(), 'probe_execs': 0, 'probe_outcomes': 0}
    word = [tuple(w) for w in r['word']]
    try:
        run_word(r['cfg'], word, r['seed'], True, stats)
    except Violation as v:
        print(f"VIOLATION property={PID} replay=(reproduced)\n  {v.what}")
        return 1
    print("replay: no violation on the current tree")
    return 0
