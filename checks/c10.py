"""C10 – Welford / exponential-smoothing trackers equal their closed forms on every stream.

Every stream up to length L over a signed rational alphabet (with zero) and over a large-mean /
small-spread integer alphabet is pushed through the real trackers (depth-first with shared prefixes, one
real update per transition); after EVERY update N, get(), mean, var, std are compared exactly
(Fractions) with closed forms recomputed from the whole history.  Corollaries are checked directly:
mean within [min, max], smoothed value within hull(0, inputs), linearity over all pairs of streams.
A type pass repeats the streams as int / float / np.float64 against the exact value within a rounding bound.
"""
import copy
import itertools
import sys
from fractions import Fraction as F

import numpy as np

from ixverif import choice
from ixverif.choice import Violation
from ixverif.refmodels import es_stat, mean_stat, var_stat

LEVEL = 'model_checking'
PID = 'C10'
EPS = sys.float_info.epsilon
ALPHA_A = [F(-2), F(-1, 3), F(0), F(1, 2), F(3)]
ALPHA_B = [10 ** 8 + 1, 10 ** 8 - 1, 10 ** 8, -(10 ** 8)]
ALPHAS = [0, F(1, 4), F(1, 3), F(1, 2), 1]


def bad(key, what):
    raise Violation(f"{PID}/{key}", what, {})


def approx(got, want, tol):
    return abs(F(float(got)) - F(want)) <= tol


def check_welford(tr, hist, exact, where):
    n = len(hist)
    hx = [F(int(v)) if isinstance(v, np.integer) else (F(v) if not isinstance(v, float) else F(float(v))) for v in hist]
    m, v = mean_stat(hx), var_stat(hx)
    if tr.N != n:
        bad('welford-N', f"{where}: N={tr.N} after {n} updates")
    scale = max([1] + [abs(x) for x in hx])
    tol_m = 0 if exact else 4 * n * F(EPS) * scale
    tol_v = 0 if exact else 16 * n * F(EPS) * scale * scale
    for name, got in (('mean', tr.mean), ('get()', tr.get())):
        if (got != m) if exact else not approx(got, m, tol_m):
            bad('welford-mean', f"{where}: {name}={got!r}, arithmetic mean of the {n} values is {m} ({float(m)!r})")
    if (tr.var != v) if exact else not approx(tr.var, v, tol_v):
        bad('welford-var', f"{where}: var={tr.var!r}, population variance is {v} ({float(v)!r})")
    std = tr.std
    want = float(v) ** 0.5
    if isinstance(std, complex) or not abs(float(std) - want) <= 4 * EPS * max(1.0, want) + (0 if exact else float(tol_v) ** 0.5 + float(tol_v)):
        bad('welford-std', f"{where}: std={std!r}, expected sqrt(var)={want!r}")
    if n and not (min(hx) - tol_m <= F(float(tr.mean)) <= max(hx) + tol_m if not exact else min(hx) <= tr.mean <= max(hx)):
        bad('welford-range', f"{where}: mean {tr.mean!r} outside [min, max] of the inputs")


def check_es(tr, hist, alpha, exact, where, eps=EPS):
    n = len(hist)
    hx = [F(int(v)) if isinstance(v, np.integer) else (F(v) if not isinstance(v, float) else F(float(v))) for v in hist]
    want = es_stat(hx, F(alpha))
    if tr.N != n:
        bad('es-N', f"{where}: N={tr.N} after {n} updates")
    scale = max([1] + [abs(x) for x in hx])
    # forward error of evaluating the recurrence in floating point, in either of its two usual forms
    # ((1-a)*s + a*v and s + a*(v-s)): one step adds at most a few eps * (a|v| + a|s_old| + |s_new|) and earlier errors
    # decay with (1-a).  |s| is bounded by the same smoothing applied to |v_i|.  This stays meaningful for tiny alpha, where
    # the blanket bound eps*max|v|/alpha (C20) is vacuous, and does not demand more than either form delivers for alpha
    # near 1 after a drop in magnitude.
    tol = F(0)
    if not exact:
        a_, s_abs = F(alpha), F(0)
        for x in hx:
            s_new = (1 - a_) * s_abs + a_ * abs(x)
            tol = (1 - a_) * tol + 16 * F(eps) * (a_ * abs(x) + a_ * s_abs + s_new)
            s_abs = s_new
        tol += F(1, 10 ** 300)
    got = tr.get()
    if (got != want) if exact else not approx(got, want, tol):
        bad('es-value', f"{where}: get()={got!r}, sum alpha(1-alpha)^(n-i) v_i = {want} ({float(want)!r})")
    lo, hi = min([0] + hx), max([0] + hx)
    g = got if exact else F(float(got))
    if not (lo - tol <= g <= hi + tol):
        bad('es-hull', f"{where}: smoothed value {got!r} outside the convex hull of 0 and the inputs")


def walk(make, check, alphabet, L, conv, exact, label, counter):
    """Depth-first over all streams with shared prefixes; one real update per transition."""
    def rec(tr, hist):
        if len(hist) == L:
            return
        for v in alphabet:
            t2 = copy.deepcopy(tr)
            val = conv(v)
            t2.update(val)
            h2 = hist + [val]
            counter['transitions'] += 1
            check(t2, h2, exact, f"{label} stream {[str(x) for x in h2]}")
            counter['states'].add((label, tuple(map(str, h2))) if len(h2) <= 3 else None)
            rec(t2, h2)
    tr = make()
    check(tr, [], exact, f"{label} empty stream")
    rec(tr, [])


def linearity(make, L, alphabet, label):
    """T(a*s + b*t) == a*T(s) + b*T(t) for all pairs of equal-length streams."""
    n = 0
    for ln in range(1, L + 1):
        streams = list(itertools.product(alphabet, repeat=ln))
        outs = {}
        for s in streams:
            tr = make()
            for v in s:
                tr.update(v)
            outs[s] = tr.get()
        for s, t in itertools.product(streams, repeat=2):
            for a, b in ((-1, 2), (2, -1), (F(1, 2), F(1, 2))):
                tr = make()
                for u, w in zip(s, t):
                    tr.update(a * u + b * w)
                n += 1
                if tr.get() != a * outs[s] + b * outs[t]:
                    bad('linearity', f"{label}: T({a}*{[str(x) for x in s]} + {b}*{[str(x) for x in t]}) = {tr.get()} "
                                     f"!= {a}*{outs[s]} + {b}*{outs[t]}")
    return n


def run_task(task):
    from ixai.utils.tracker import WelfordTracker, ExponentialSmoothingTracker
    kind, arg, L = task
    counter = {'transitions': 0, 'states': set()}
    viol = []
    try:
        if kind == 'welford':
            alphabet, conv, exact, name = arg
            walk(WelfordTracker, check_welford, alphabet, L, conv, exact, f"WelfordTracker[{name}]", counter)
        elif kind == 'es':
            alpha, alphabet, conv, exact, name = arg
            a = alpha if (exact or isinstance(alpha, np.floating)) else float(alpha)
            eps = float(np.finfo(np.float32).eps) if isinstance(a, np.float32) else EPS
            walk(lambda: ExponentialSmoothingTracker(alpha=a),
                 lambda tr, h, ex, w: check_es(tr, h, alpha if exact else F(float(alpha)), ex, w, eps), alphabet, L, conv, exact,
                 f"ExponentialSmoothingTracker(alpha={alpha})[{name}]", counter)
        elif kind in ('welford-sub', 'es-sub'):
            # a user subclass that overrides update (clipping / logging) and delegates with super().update(): the inherited
            # statistics and the update count must be those of the values that were handed on
            base_cls = WelfordTracker if kind == 'welford-sub' else ExponentialSmoothingTracker

            class Delegating(base_cls):
                seen = 0

                def update(self, value_i):
                    self.seen += 1
                    return super().update(value_i)

            class Inheriting(base_cls):      # overrides nothing
                pass
            for cls_, tag in ((Delegating, 'overrides update and calls super().update'), (Inheriting, 'overrides nothing')):
                if kind == 'welford-sub':
                    walk(cls_, check_welford, ALPHA_A, L, ident, True, f"user subclass of WelfordTracker ({tag})", counter)
                else:
                    walk(lambda: cls_(alpha=arg), lambda tr, h, ex, w: check_es(tr, h, arg, ex, w), ALPHA_A, L, ident, True,
                         f"user subclass of ExponentialSmoothingTracker(alpha={arg}) ({tag})", counter)
        elif kind == 'es-reassign':
            # the public alpha attribute is re-assigned before the first value: the closed form for the NEW alpha must hold
            a1, a2, alphabet = arg
            def mk():
                t = ExponentialSmoothingTracker(alpha=a1)
                t.alpha = a2
                return t
            walk(mk, lambda tr, h, ex, w: check_es(tr, h, a2, ex, w), alphabet, L, ident, True,
                 f"ExponentialSmoothingTracker(alpha={a1}) with tracker.alpha re-assigned to {a2}", counter)
        elif kind == 'lin-welford':
            counter['transitions'] += linearity(WelfordTracker, L, ALPHA_A, "WelfordTracker")
        elif kind == 'lin-es':
            counter['transitions'] += linearity(lambda: ExponentialSmoothingTracker(alpha=arg), L, ALPHA_A,
                                                f"ExponentialSmoothingTracker(alpha={arg})")
    except Exception as e:
        v = e if isinstance(e, Violation) else choice.library_exception(e, f'in task {kind}')
        viol.append((v.key, v.what, {}, ()))
    counter['states'].discard(None)
    return dict(task=(kind, str(arg)[:80], L), transitions=counter['transitions'], states=len(counter['states']),
                violations=viol)


def ident(v):
    return v


def plan(tier):
    L = 7 if tier == 'thorough' else 5
    tasks = [('welford', (ALPHA_A, ident, True, 'Fraction'), L), ('welford', ([F(v) for v in ALPHA_B], ident, True, 'Fraction large-mean'), L),
             ('welford', (ALPHA_B, ident, False, 'int large-mean'), L - 1),
             ('welford', (ALPHA_A, float, False, 'float'), L - 1), ('welford', (ALPHA_A, np.float64, False, 'np.float64'), L - 1),
             ('welford', ([-2, 0, 1, 3, 7], ident, False, 'int'), L - 1),
             ('welford', (ALPHA_B, float, False, 'float large-mean'), L - 1),
             ('welford', ([5, 3, 250, 0, 17], np.uint8, False, 'np.uint8'), L - 1),
             ('welford', ([100, -100, 50, -3], np.int8, False, 'np.int8'), L - 1),
             ('welford', ([60000, 2, 30000], np.uint16, False, 'np.uint16'), L - 1)]
    for a in ALPHAS:
        tasks.append(('es', (a, ALPHA_A, ident, True, 'Fraction'), L))
        tasks.append(('es', (a, ALPHA_A, float, False, 'float'), L - 1))
        tasks.append(('lin-es', a, 2 if tier != 'thorough' else 3))
    tasks.append(('es', (F(1, 4), [F(v) for v in ALPHA_B], ident, True, 'Fraction large-mean'), L - 1))
    tasks.append(('es', (F(1, 4), ALPHA_A, np.float64, False, 'np.float64'), L - 1))
    tasks.append(('es', (F(1, 4), [5, 3, 250, 0], np.uint8, False, 'np.uint8'), L - 1))
    tasks.append(('es', (F(1, 2), [100, -100, 50], np.int8, False, 'np.int8'), L - 1))
    # legal extreme smoothing parameters: non-zero alphas below eps (1 - alpha rounds to 1), alpha just below 1, and a
    # NumPy float32 alpha (the arithmetic then happens in float32); large values so that alpha*v is of order one
    BIG = [3e17, -1e17, 5e17, 2e17]
    for a in (1e-17, 2.0 ** -54, 5e-324, 1 - 2.0 ** -53):
        tasks.append(('es', (a, BIG, float, False, f'float alpha={a!r}'), 4))
    tasks.append(('es', (np.float32(2e-8), [1e8, 3e8, -2e8], float, False, 'np.float32 alpha'), 4))
    tasks.append(('es', (np.float32(0.25), ALPHA_A, float, False, 'np.float32 alpha'), 4))
    for a in (1.0, 0.999, 0.5, 1e-3):       # drops and jumps in magnitude
        tasks.append(('es', (a, [1e17, 3.0, -2.5e-3, -4e16], float, False, f'float magnitude jumps alpha={a!r}'), 4))
    tasks.append(('lin-welford', None, 2 if tier != 'thorough' else 3))
    tasks.append(('welford-sub', None, 3))
    tasks.append(('es-sub', F(1, 4), 3))
    for a1, a2 in ((F(1, 10), F(1)), (F(1, 2), F(1, 4)), (F(1), F(1, 3)), (F(0), F(1, 2))):
        tasks.append(('es-reassign', (a1, a2, ALPHA_A), 3))
    return tasks


def main(rep):
    tasks = plan(rep.tier)
    results = choice.pmap(run_task, tasks, chunksize=1)
    for r in results:
        rep.add(evaluations=r['transitions'], traces_validated_against_impl=r['transitions'],
                transitions=r['transitions'], states=r['states'])
        for key, what, detail, prefix in r['violations']:
            rep.violation(key, what, {'task': list(r['task'])})
        rep.mark_nontrivial([(r['task'][0], r['task'][1], i) for i in range(r['states'])])
        if len(rep.samples) < 4:
            rep.sample({'task': r['task'], 'updates_checked': r['transitions']})
    rep.note(tasks=len(tasks))
    rep.assume("bounded agreement on every stream up to length L over the stated alphabets, not an inductive proof",
               "float passes: mean within 4 n eps max|v|, var within 16 n eps max|v|^2, smoothed value within 4 (n+1) eps max|v|")
    return rep.finish(
        rule="all streams up to length L (5 quick / 7 thorough) over a 5-letter signed rational alphabet and a large-mean "
             "integer alphabet x alpha menu x numeric types, every prefix checked; linearity over all pairs of streams of "
             "length <= 2 (3); states = distinct stream prefixes of length <= 3; transitions = real update calls checked")


def replay(data):
    t = data['replay']['task']
    for task in plan('thorough') + plan('quick'):
        if task[0] == t[0] and str(task[1])[:80] == t[1] and task[2] == t[2]:
            r = run_task(task)
            if r['violations']:
                print(f"VIOLATION property={PID} replay=(reproduced)\n  {r['violations'][0][1]}")
                return 1
            print("replay: no violation on the current tree")
            return 0
    print("HARNESS-ERROR: task not found")
    return 2
