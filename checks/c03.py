"""C03 – IncrementalSage credits each feature its loss reduction along the random chain.

Config product x every stream of length T over the observation alphabet x the library's draws
(full enumeration for core configs, deviation-bounded otherwise), always through the imputer spy.
After EVERY explain_one the return value, importance_values, variances, marginal_prediction,
marginal_loss and model_loss are compared exactly (rationals) with an independent reference that reads
the feature order off the imputer calls.
"""
from fractions import Fraction as F

from ixverif import choice
from checks import sage_common as sc

LEVEL = 'model_checking'
PID = 'C03'


def plan(tier):
    T = 3
    deep = tier == 'thorough'
    tasks = []
    for cfg in sc.product_configs('sage', tier):
        base = cfg['alpha'] == F(1, 4) and cfg['n_inner'] < 3 and cfg['storage'] in ('Batch', 'Uniform', 'Geometric') \
            and cfg['names'] != 'float'
        if cfg['storage'] == 'libdefault' and cfg['imputer'] != 'default':
            continue        # the reference needs the imputer spy, which needs an explicit storage object
        if sc.is_core(cfg):
            tasks.append((cfg, T + 1 if deep else T, None, False, 3))
        else:
            bound = 2 if (deep and base and cfg['d'] == 3 and cfg['n_inner'] == 2 and cfg['imputer'] == 'joint'
                          and cfg['names'] == 'str') else 1
            tasks.append((cfg, T, bound, True, 3 if (deep and base and bound == 1) else 2))
    # long streams (5 observations, 4 explained) around the two base executions: state carried over several steps
    for cfg in sc.product_configs('sage', 'quick'):
        if cfg['d'] == 2 and cfg['n_inner'] == 1 and cfg['storage'] == 'Batch' and cfg['names'] == 'str' \
                and cfg['imputer'] in ('joint', 'default'):
            tasks.append((cfg, 5 if not deep else 6, 0, False, 2))
            if cfg['imputer'] == 'joint' and cfg['model'] == 'scalar':
                # capacity-bounded storages far beyond their capacity (evictions / in-place replacements between calls)
                for st in ('Interval', 'Sequence', 'Geometric'):
                    tasks.append((dict(cfg, storage=st), 5, 1 if st == 'Geometric' else 0, False, 2))
    # multi-label predictions of magnitude 1e-10: the marginal prediction is a ratio and must not depend on the scale
    for cfg in sc.product_configs('sage', 'quick'):
        if cfg['d'] == 2 and cfg['n_inner'] == 1 and cfg['storage'] == 'Batch' and cfg['names'] == 'str' \
                and cfg['imputer'] == 'joint' and cfg['model'] != 'scalar':
            tasks.append((dict(cfg, oscale=True), 4, 0, False, 2))
    # a model that returns one pre-allocated output dict, overwritten in place at every call: predictions the explainer
    # keeps by reference must have been consumed before the model is called again
    for cfg in sc.buffer_configs('sage'):
        tasks.append((cfg, 3 if cfg['d'] == 3 else 4, 1, False, 2))      # bound 1: every feature order occurs
    tasks.sort(key=lambda t: -(t[2] or 0))
    return tasks


def make_oracle(cfg, h):
    ref = sc.SageRef(cfg, h)
    ref.pid = PID

    def oracle(t, x, y, ret, events, n_exp, kw):
        ref.step(t, x, y, ret, events, n_exp)
    oracle.ref = ref
    return oracle


def run_task(task):
    cfg, T, bound, options, asize = task
    orders, labelsets, states = set(), set(), set()
    trans = [0]

    def on_leaf(run, oracle):
        ref = oracle.ref
        orders.update(ref.orders)
        labelsets.update(ref.labelsets)
        trans[0] += ref.explained
        states.add(hash(tuple(sorted((repr(k), tuple(v)) for k, v in ref.contribs.items()))))
    st = choice.explore(sc.stream_driver(cfg, T, make_oracle, asize, options), on_leaf=on_leaf,
                        bound=bound)
    if bound is not None and not st.violations:
        # second pass around a different base execution: default answer = last alternative
        st2 = choice.explore(sc.stream_driver(cfg, T, make_oracle, asize, options), on_leaf=on_leaf,
                             bound=bound, default_last=True)
        st.merge(st2)
        st.violations = [(k, w, dict(d, default_last=True), p) for k, w, d, p in st.violations]
    return dict(cfg=cfg, T=T, bound=bound, asize=asize, executions=st.executions, violations=st.violations,
                orders=orders, labelsets=labelsets, states=states, transitions=trans[0],
                unscripted=st.unscripted)


def main(rep, run=run_task, pid=PID):
    import math
    tasks = plan(rep.tier)
    results = choice.pmap(run, tasks, chunksize=4)
    states = set()
    full = 0
    for r in results:
        cfg = r['cfg']
        rep.add(evaluations=r['executions'], traces_validated_against_impl=r['executions'],
                transitions=r['transitions'])
        rep.unscripted += r['unscripted']
        states |= r['states']
        for key, what, detail, prefix in r['violations']:
            rep.violation(key, what, {'cfg': cfg, 'T': r['T'], 'bound': r['bound'], 'asize': r['asize'], 'prefix': list(prefix),
                                      'default_last': bool(detail.get('default_last'))})
        if r['violations']:
            continue
        if r['bound'] is None:
            full += 1
        if len(r['orders']) != math.factorial(cfg['d']):
            raise choice.HarnessError(f"non-vacuity: {sc.cfg_desc(cfg)} saw feature orders {r['orders']}")
        if cfg['model'] in ('multi', 'swap') and len(r['labelsets']) < 2:
            raise choice.HarnessError(f"non-vacuity: {sc.cfg_desc(cfg)} saw label sets {r['labelsets']}")
        rep.mark_nontrivial([(sc.cfg_desc(cfg), o) for o in r['orders']])
        if len(rep.samples) < 3 and cfg['d'] == 3 and cfg['n_inner'] == 2:
            rep.sample({'config': sc.cfg_desc(cfg), 'stream_length': r['T'], 'deviation_bound': r['bound'],
                        'executions': r['executions'], 'feature_orders_seen': sorted(map(list, r['orders']))})
    if not rep.samples:
        rep.sample({'config': sc.cfg_desc(results[0]['cfg']), 'executions': results[0]['executions']})
    rep.add(states=max(1, len(states)))
    rep.exhaustive = True
    rep.note(configs=len(tasks), configs_fully_enumerated=full,
             bounds="core configs (d<=2, n_inner=1, deterministic storage): every draw outcome, streams of "
                    "length 3 (4 in thorough); other configs: all streams of length 3, all executions with <= D non-default "
                    "draw answers / per-call options, explored around two base executions (all-first and all-last default answers) (D per config in the replay data; 1 in quick, 2 for the "
                    "quick product in thorough); observation alphabet of 3 letters (2 for non-core configs in quick)")
    rep.assume("losses and model outputs are exact rationals (Fractions flow through the real code)",
               "the storage is non-empty at impute time (the first call always updates the storage)",
               "public marginal_loss/model_loss are floats (the code adds 0. / 1.): compared within 4 ulp")
    return rep.finish(
        rule="config product x all streams x draw outcomes (full or deviation-bounded); non-trivial = distinct "
             "(config, feature order actually drawn); states = distinct per-feature contribution histories; "
             "transitions = explained observations checked against the reference")


def replay(data):
    r = data['replay']
    cfg = fix_cfg(r['cfg'])
    res = []
    for _ in range(2):
        run, out, viol = choice.execute(sc.stream_driver(cfg, r['T'], make_oracle, r.get('asize', 3), r['bound'] is not None),
                                        tuple(r['prefix']), default_last=bool(r.get('default_last')))
        res.append((viol.key, viol.what) if viol else None)
    if res[0] != res[1]:
        print("HARNESS-ERROR: replay not deterministic")
        return 2
    if res[0]:
        print(f"VIOLATION property={PID} replay=(reproduced)\n  {res[0][1]}")
        return 1
    print("replay: no violation on the current tree")
    return 0


def fix_cfg(cfg):
    cfg = dict(cfg)
    if isinstance(cfg.get('alpha'), str):
        cfg['alpha'] = F(cfg['alpha'])
    return cfg
