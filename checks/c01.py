"""C01 – IncrementalSage efficiency: sum of importance values == marginal loss - model loss.

Config product (with and without spies, library-default storage / imputer, per-call n_inner override and
update_storage=False as extra letters) x every stream x the library's draws (full for core configs,
deviation-bounded around two base executions otherwise).  Oracle after EVERY explain_one:
exact equality on the rational tracker values, public float properties within 4 ulp; a float pass with
non-dyadic float losses is compared within a stated rounding bound.
"""
import sys
from fractions import Fraction as F

from ixverif import choice
from ixverif.choice import Violation
from ixverif.explharness import Harness, alphabet
from checks import sage_common as sc

LEVEL = 'model_checking'
PID = 'C01'
EPS = sys.float_info.epsilon


def plan(tier):
    T = 3
    asize = 3 if tier == 'thorough' else 2
    tasks = []
    for cfg in sc.product_configs('sage', tier):
        base = cfg['alpha'] == F(1, 4) and cfg['n_inner'] < 3 and cfg['storage'] in ('Batch', 'Uniform', 'Geometric') \
            and cfg['names'] != 'float'
        cfg = dict(cfg, spy=(cfg['d'] + cfg['n_inner']) % 2 == 0)
        if sc.is_core(cfg):
            tasks.append((cfg, T + 1 if tier == 'thorough' else T, None, False, 3, 'exact'))
        else:
            tasks.append((cfg, T, 1, True, asize if base else 2, 'exact'))
    # long streams around the two base executions (state carried over several steps)
    for cfg in sc.product_configs('sage', 'quick'):
        if cfg['d'] == 2 and cfg['n_inner'] == 1 and cfg['storage'] == 'Batch' and cfg['names'] == 'str' \
                and cfg['imputer'] in ('joint', 'default'):
            tasks.append((dict(cfg, spy=False), 6, 0, False, 2, 'exact'))
            if cfg['imputer'] == 'joint' and cfg['model'] == 'scalar':
                for st in ('Interval', 'Sequence', 'Geometric'):
                    tasks.append((dict(cfg, spy=False, storage=st), 6, 0, False, 2, 'exact'))
    # a model that returns one pre-allocated output dict, overwritten in place at every call
    for cfg in sc.buffer_configs('sage'):
        tasks.append((dict(cfg, spy=cfg['d'] == 2), 3 if cfg['d'] == 3 else 4, 1 if cfg['storage'] == 'Geometric' else 0, False, 2, 'exact'))
    # library defaults and remaining storages / n_inner=3 (not in the quick product)
    for dyn in (False, True):
        for d in (1, 2, 3):
            for st, im in (('libdefault', 'none'), ('libdefault', 'default'), ('Interval', 'none'),
                           ('Sequence', 'joint'), ('Interval', 'product')):
                for n in (1, 3):
                    for model in ('scalar', 'multi'):
                        cfg = dict(expl='sage', dynamic=dyn, alpha=F(1, 4), n_inner=n, d=d, storage=st,
                                   imputer=im, names='float' if d == 2 else 'str', lbib=(d == 3), model=model,
                                   loss='poly', spy=False)
                        tasks.append((cfg, T, 1, True, asize, 'exact'))
    # float pass: non-dyadic float losses / alpha
    for dyn in (False, True):
        for d in (2, 3):
            for st in ('Batch', 'Uniform'):
                for model in ('scalar', 'multi'):
                    cfg = dict(expl='sage', dynamic=dyn, alpha=0.3, n_inner=2, d=d, storage=st, imputer='joint',
                               names='str', lbib=False, model=model, loss='poly', spy=False)
                    tasks.append((cfg, T + 1, 1, False, asize, 'float'))
    return tasks


def tofloat(v):
    return float(v) * 1.1


def make_driver(cfg, T, asize, options, mode, fork_ok=True):
    conv = tofloat if mode == 'float' else None

    def driver(run):
        h = Harness(cfg, spy_imputer=cfg.get('spy', True), spy_storage=cfg.get('spy', True), conv=conv)
        letters = alphabet(h.names, cfg['model'], asize)
        if mode == 'float':
            letters = [({k: float(v) for k, v in x.items()}, (float(y) if not isinstance(y, str) else y))
                       for x, y in letters]
        ex = h.expl
        if options and mode == 'exact':
            h.model.positional = True
        seen = []
        maxloss = 1.0
        import copy as _copy
        fork = None
        for t in range(T + 1):
            if t == T - 1 and mode == 'exact' and fork_ok:
                fork = choice.safe_copy(ex)        # a checkpoint of the explainer, taken before the original moves on
            if t == T:
                if fork is None:
                    break
                ex = fork                        # ... and used afterwards: it must be independent of the original
            x, y = letters[run.choose(len(letters), 'obs', None, 0)] if t < T else letters[-1]
            if t < T and options and mode == 'exact':
                x = sc.shaped(x, run.choose(3, 'shape', None, 1), t)     # non-uniform observation dicts
            kw = {}
            if t < T and options and (t >= 1 or cfg['imputer'] == 'default'):
                o = run.choose(3, 'opt', None, 1)
                if o == 1:
                    kw['n_inner_samples'] = cfg['n_inner'] + 1
                elif o == 2:
                    kw['update_storage'] = False
            mark = h.log.mark()
            ret = ex.explain_one(dict(x), y, **kw)
            imp = ex.importance_values
            total = sum(imp.values()) if imp else 0
            marg, model, expl = ex.marginal_loss, ex.model_loss, ex.explained_loss
            where = f"IncrementalSage[{sc.cfg_desc(cfg)}] after call {t + 1} (options {kw})" + \
                (" on a deep copy taken before the original explainer processed one more observation" if t == T else "")
            if mode == 'exact':
                ok_pub = sc.close(expl, F(total), 4) if not isinstance(expl, F) else expl == total
                scale = max(1, abs(F(marg)) + abs(F(model)))
                if not isinstance(expl, F):
                    ok_pub = abs(F(float(expl)) - F(total)) <= 4 * F(EPS) * scale
                if not ok_pub:
                    raise Violation("C01/efficiency", f"{where}: sum(importance_values)={total} but explained_loss="
                                    f"{expl!r} (marginal_loss={marg!r}, model_loss={model!r})", {})
                mt = getattr(ex, '_marginal_loss_tracker', None)
                lt = getattr(ex, '_model_loss_tracker', None)
                if mt is not None and lt is not None and hasattr(mt, 'get') and hasattr(lt, 'get'):
                    pm, pl = mt.get(), lt.get()
                    if isinstance(pm, (F, int)) and isinstance(pl, (F, int)) and pm - pl != total:
                        raise Violation("C01/efficiency", f"{where}: sum(importance_values)={total} but the tracked "
                                        f"marginal loss {pm} minus model loss {pl} is {pm - pl}", {})
                    it = getattr(ex, '_importance_trackers', None)
                    if it is not None and len({getattr(mt, 'N', None), getattr(lt, 'N', None),
                                               getattr(it, 'N', None)}) != 1:
                        raise Violation("C01/lock-step", f"{where}: trackers report different update counts "
                                        f"{getattr(mt, 'N', None)}, {getattr(lt, 'N', None)}, {getattr(it, 'N', None)}", {})
                if F(total) != 0:
                    seen.append(F(total))
            else:
                for e in h.log.since(mark):
                    if e[0] == 'loss':
                        maxloss = max(maxloss, abs(float(e[3])))
                tol = 16 * EPS * (cfg['d'] + 3) * maxloss * max(1, t)
                if not (abs(float(total) - float(expl)) <= tol):
                    raise Violation("C01/efficiency-float", f"{where}: |sum(importance_values) - explained_loss| = "
                                    f"{abs(float(total) - float(expl))!r} > {tol!r} (float pass)", {})
                if total != 0:
                    seen.append(float(total))
        return tuple(seen)
    return driver


def run_task(task):
    cfg, T, bound, options, asize, mode = task
    values = set()
    n = [0]

    def on_leaf(run, seen):
        values.update(seen)
        n[0] += T
    # (a full enumeration over 4 calls is not continued on a copy: the extra call would multiply the tree by ~30)
    drv = make_driver(cfg, T, asize, options, mode, fork_ok=not (bound is None and T >= 4))
    st = choice.explore(drv, on_leaf=on_leaf, bound=bound)
    dl = False
    if bound is not None and not st.violations:
        st2 = choice.explore(drv, on_leaf=on_leaf, bound=bound, default_last=True)
        st.merge(st2)
        dl = bool(st2.violations)
    return dict(task=task, executions=st.executions, violations=st.violations, default_last=dl,
                values=len(values), states={hash(v) for v in values}, transitions=n[0],
                unscripted=st.unscripted)


def main(rep):
    tasks = plan(rep.tier)
    tasks.sort(key=lambda t: -(t[1] * (3 if t[2] is None else 1) * t[4]))      # heavy tasks first (load balance)
    results = choice.pmap(run_task, tasks, chunksize=2)
    states = set()
    for r in results:
        cfg, T, bound, options, asize, mode = r['task']
        rep.add(evaluations=r['executions'], traces_validated_against_impl=r['executions'],
                transitions=r['transitions'])
        rep.unscripted += r['unscripted']
        states |= r['states']
        for key, what, detail, prefix in r['violations']:
            rep.violation(key, what, {'task': [cfg, T, bound, options, asize, mode], 'prefix': list(prefix),
                                      'default_last': r['default_last']})
        if r['violations']:
            continue
        if r['values'] < 2 and not (cfg['dynamic'] and cfg['alpha'] == 1):   # alpha=1: marginal prediction == prediction
            raise choice.HarnessError(f"non-vacuity: {sc.cfg_desc(cfg)} produced {r['values']} distinct non-zero "
                                      f"explained losses")
        rep.mark_nontrivial([(sc.cfg_desc(cfg), mode, i) for i in range(min(r['values'], 50))])
        if len(rep.samples) < 3 and cfg['d'] == 3:
            rep.sample({'config': sc.cfg_desc(cfg), 'mode': mode, 'stream_length': T, 'deviation_bound': bound,
                        'executions': r['executions'], 'distinct_nonzero_explained_losses': r['values']})
    if not rep.samples:
        rep.sample({'config': sc.cfg_desc(results[0]['task'][0])})
    rep.add(states=max(1, len(states)))
    rep.note(configs=len(tasks))
    rep.assume("exact pass: rational losses / outputs / alpha; the public properties add the float 0./1. and are "
               "compared within 4 ulp of max(1,|marginal|+|model|), the tracked rational values exactly",
               "float pass: |sum - explained_loss| <= 16 eps (d+3) max|loss| t",
               "storage non-empty at impute time")
    return rep.finish(
        rule="config product x all streams x draws (full for core configs; <=1 deviation around two base "
             "executions otherwise); non-trivial = distinct (config, non-zero explained-loss value) (capped at 50 "
             "per config); states = distinct explained-loss values; transitions = explain_one calls checked")


def replay(data):
    r = data['replay']
    cfg, T, bound, options, asize, mode = r['task']
    cfg = dict(cfg)
    if isinstance(cfg['alpha'], str):
        cfg['alpha'] = F(cfg['alpha'])
    out = []
    for _ in range(2):
        run, res, viol = choice.execute(make_driver(cfg, T, asize, options, mode, fork_ok=not (bound is None and T >= 4)), tuple(r['prefix']),
                                        default_last=bool(r.get('default_last')))
        out.append((viol.key, viol.what) if viol else None)
    if out[0] != out[1]:
        print("HARNESS-ERROR: replay not deterministic")
        return 2
    if out[0]:
        print(f"VIOLATION property={PID} replay=(reproduced)\n  {out[0][1]}")
        return 1
    print("replay: no violation on the current tree")
    return 0
