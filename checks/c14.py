"""C14 – model wrappers: one canonical dict output form, key-order independence, dispatch.

Exhaustive finite product: prediction stubs for every output shape ((), (1,), (1,1), (c,), (1,c) for dict
input; (n,), (n,1), (n,c) for list input) x dtype x batch size through SklearnWrapper and TorchWrapper;
river stubs for every output kind (dict, float, int, bool, NumPy scalar, string labels); feature-name lists
x ALL key orders of every row of the input (single and batch) x name subsets; real fitted sklearn / river /
torch models; dispatch of validate_model_function over every sklearn estimator and river model class that
exposes a predict method.  Oracle: a 10-line canonical-form reference.
"""
import importlib
import inspect
import itertools
import pkgutil
import warnings

import numpy as np

from ixverif import choice
from ixverif.choice import Violation

LEVEL = 'exploration'
PID = 'C14'


def canon_row(a):
    """Reference: canonical dict of ONE prediction (scalar or array)."""
    a = np.asarray(a)
    if a.size == 1:
        return {'output': float(a.reshape(-1)[0])}
    flat = a.reshape(-1)
    return {i: flat[i] for i in range(flat.shape[0])}


def same_dict(got, want):
    if not isinstance(got, dict) or len(got) != len(want):
        return False
    for k, v in want.items():
        if k not in got:
            return False
        g = got[k]
        try:
            if not (g == v or (g != g and v != v)):
                return False
        except Exception:
            return False
    return True


def bad(key, what):
    raise Violation(f"{PID}/{key}", what, {})


def close_dict(got, want, tol=1e-9):
    """For real models: batch and single evaluation may differ in the last bits (BLAS)."""
    if not isinstance(got, dict) or set(got) != set(want):
        return False
    return all(abs(float(got[k]) - float(want[k])) <= tol * max(1.0, abs(float(want[k]))) for k in want)


# ------------------------------------------------------------------------------------- part 1: shapes
def values(shape, dtype, seed):
    n = int(np.prod(shape)) if shape else 1
    base = np.arange(1, n + 1, dtype=np.float64) * 1.5 + seed
    if dtype == 'bool':
        arr = (np.arange(n) + seed) % 2 == 0
    elif dtype == 'int64':
        arr = (np.arange(1, n + 1) * 3 + seed).astype(np.int64)
    else:
        arr = base.astype(dtype)
    return arr.reshape(shape)


def shapes_check(kind):
    """kind: 'sklearn' or 'torch'."""
    from ixai.utils.wrappers import SklearnWrapper, TorchWrapper
    n_cases = 0
    outcomes = set()
    dtypes = ['float64', 'float32', 'int64', 'bool'] if kind == 'sklearn' else ['float32', 'int64', 'float64']
    x1 = {'f1': 1.0, 'f2': 2.0}
    for dtype in dtypes:
        single = [(), (1,), (1, 1), (2,), (3,), (1, 2), (1, 3)]
        for shape in single:
            out = values(shape, dtype, 1)
            if kind == 'sklearn':
                w = SklearnWrapper(lambda X, out=out: out)
            else:
                import torch
                w = TorchWrapper(lambda X, out=out: torch.tensor(out))
            got = w(dict(x1))
            want = canon_row(out)
            n_cases += 1
            outcomes.add((kind, 'single', shape, dtype, tuple(want)))
            if not same_dict(got, want) or ('output' in want and type(got.get('output')) is not float):
                bad(f'output-form/{kind}', f"{kind} wrapper, dict input, prediction function output of shape {shape} "
                                           f"dtype {dtype} ({out!r}): got {got!r}, canonical form is {want!r}")
        for n in (1, 2, 3):
            for shape in [(n,), (n, 1), (n, 2), (n, 3)]:
                out = values(shape, dtype, 2)
                if kind == 'sklearn':
                    w = SklearnWrapper(lambda X, out=out: out)
                else:
                    import torch
                    w = TorchWrapper(lambda X, out=out: torch.tensor(out))
                got = w([dict(x1) for _ in range(n)])
                want = [canon_row(out[i]) for i in range(n)]
                n_cases += 1
                outcomes.add((kind, 'batch', shape, dtype))
                if not isinstance(got, list) or len(got) != n or not all(same_dict(g, w_) for g, w_ in zip(got, want)):
                    bad(f'batch-form/{kind}', f"{kind} wrapper, list input of {n} rows, batch output of shape {shape} "
                                              f"dtype {dtype}: got {got!r}, expected the canonical dicts of the rows "
                                              f"{want!r}")
    return n_cases, outcomes


# ------------------------------------------------------------------------------------- part 2: river stubs
def river_check():
    from ixai.utils.wrappers import RiverWrapper
    n_cases = 0
    outcomes = set()
    x = {'a': 1}
    for name, val in [('dict', {'p': 0.25, 'q': 0.75}), ('float', 2.5), ('int', 3), ('bool', True),
                      ('np.float64', np.float64(1.25)), ('np.int64', np.int64(7)), ('np.float32', np.float32(0.5)),
                      ('empty dict', {})]:
        w = RiverWrapper(lambda x_, val=val: val)
        got = w(dict(x))
        want = dict(val) if isinstance(val, dict) else {'output': float(val)}
        n_cases += 1
        outcomes.add(('river', name))
        if not same_dict(got, want):
            bad('river-form', f"RiverWrapper, prediction {val!r} ({name}): got {got!r}, expected {want!r}")
        gl = w([dict(x), dict(x)])
        if not isinstance(gl, list) or len(gl) != 2 or not all(same_dict(g, want) for g in gl):
            bad('river-batch', f"RiverWrapper, list input, prediction {val!r}: got {gl!r}")
    # string labels: growing one-hot over the labels seen so far, every sequence of 3 labels over {u, v, w}
    for seq in itertools.product('uvw', repeat=3):
        it = iter(seq)
        w = RiverWrapper(lambda x_: next(it))
        seen = []
        for lab in seq:
            got = w(dict(x))
            if lab not in seen:
                seen.append(lab)
            want = {s: (1.0 if s == lab else 0.0) for s in seen}
            n_cases += 1
            if not same_dict(got, want):
                bad('river-onehot', f"RiverWrapper, string labels {seq}: after label {lab!r} got {got!r}, expected "
                                    f"one-hot over the labels seen so far {want!r}")
        outcomes.add(('river-labels', seq))
        it2 = iter(seq)
        w2 = RiverWrapper(lambda x_: next(it2))
        gl = w2([dict(x) for _ in seq])
        seen = []
        for lab, got in zip(seq, gl):
            if lab not in seen:
                seen.append(lab)
            n_cases += 1
            if not same_dict(got, {s: (1.0 if s == lab else 0.0) for s in seen}):
                bad('river-onehot-batch', f"RiverWrapper, list input with labels {seq}: got {gl!r}; row i must be the one-hot over "
                                          f"the labels seen up to row i (identical to one-at-a-time calls)")
    return n_cases, outcomes


# ------------------------------------------------------------------------------------- part 3: key orders
def keyorder_check():
    from ixai.utils.wrappers import SklearnWrapper, TorchWrapper
    n_cases = 0
    outcomes = set()
    feats = ['a', 'b', 'c']
    base = {'a': 1.0, 'b': 20.0, 'c': 300.0, 'z': -5.0}
    for kind in ('sklearn', 'torch'):
        for d in (1, 2, 3):
            for names in itertools.permutations(feats, d):
                names = list(names)
                for extra in ((), ('z',)):
                    keys_all = [f for f in feats if f in names or True][:3] + list(extra)
                    seen_out = None
                    for order in itertools.permutations(keys_all):
                        received = []

                        def stub(X, received=received):
                            arr = X.detach().cpu().numpy() if hasattr(X, 'detach') else np.asarray(X)
                            received.append(np.array(arr, dtype=float))
                            w = np.array([1.0, 10.0, 100.0])[:arr.shape[1]]
                            res = (arr * w).sum(axis=1)
                            if hasattr(X, 'detach'):
                                import torch
                                return torch.tensor(res)
                            return res
                        w = SklearnWrapper(stub, feature_names=names) if kind == 'sklearn' else \
                            TorchWrapper(stub, feature_names=names)
                        x = {k: base[k] for k in order}
                        got = w(dict(x))
                        n_cases += 1
                        want_arr = np.array([[base[f] for f in names]])
                        if len(received) != 1 or received[0].shape != want_arr.shape or not np.array_equal(received[0], want_arr):
                            bad(f'input-order/{kind}', f"{kind} wrapper with feature_names={names}, input key order "
                                                       f"{list(order)}: the prediction function received {received}, "
                                                       f"expected exactly those features in that order {want_arr.tolist()}")
                        if seen_out is None:
                            seen_out = got
                        elif not same_dict(got, seen_out):
                            bad(f'key-order-dependence/{kind}', f"{kind} wrapper with feature_names={names}: result "
                                                                f"depends on the key order ({got} vs {seen_out})")
                    outcomes.add((kind, tuple(names), extra))
        # batch: every combination of per-row key orders (2 and 3 rows)
        rows_base = [{'a': 1.0, 'b': 2.0, 'c': 3.0}, {'a': 4.0, 'b': 5.0, 'c': 6.0}, {'a': 7.0, 'b': 8.0, 'c': 9.0}]
        perms = list(itertools.permutations(['a', 'b', 'c']))
        for names, nrows in ((['a', 'b', 'c'], 2), (['a', 'b', 'c'], 3), (['c'], 1), (['c'], 2), (['b'], 3), (['c', 'a'], 2)):
            for orders in itertools.product(perms, repeat=nrows):
                received = []

                def stub(X, received=received):
                    arr = X.detach().cpu().numpy() if hasattr(X, 'detach') else np.asarray(X)
                    received.append(np.array(arr, dtype=float))
                    res = (arr * np.array([1.0, 10.0, 100.0])[:arr.shape[1]]).sum(axis=1) if arr.ndim == 2 else arr * 0 - 1
                    if hasattr(X, 'detach'):
                        import torch
                        return torch.tensor(res)
                    return res
                w = SklearnWrapper(stub, feature_names=names) if kind == 'sklearn' else TorchWrapper(stub, feature_names=names)
                xs = [{k: rows_base[i][k] for k in orders[i]} for i in range(nrows)]
                got = w(xs)
                n_cases += 1
                want_arr = np.array([[rows_base[i][f] for f in names] for i in range(nrows)])
                want = [canon_row((want_arr[i] * np.array([1.0, 10.0, 100.0])[:len(names)]).sum()) for i in range(nrows)]
                if len(received) != 1 or not np.array_equal(received[0], want_arr):
                    bad(f'batch-input-order/{kind}', f"{kind} wrapper with feature_names={names}, batch rows keyed in "
                                                     f"orders {[list(o) for o in orders]}: the prediction function "
                                                     f"received {received[0].tolist() if received else None}, expected "
                                                     f"{want_arr.tolist()}")
                if not all(same_dict(g, w_) for g, w_ in zip(got, want)):
                    bad(f'batch-order/{kind}', f"{kind} wrapper batch result {got}, expected {want}")
                single = [w(dict(x)) for x in xs]
                if not all(same_dict(g, s) for g, s in zip(got, single)):
                    bad(f'batch-vs-single/{kind}', f"{kind} wrapper: batch result {got} differs from one-at-a-time {single}")
            outcomes.add((kind, 'batch-orders', tuple(names), nrows))
        # without feature names: values in dict order
        for order in itertools.permutations(['a', 'b', 'c']):
            received = []

            def stub(X, received=received):
                arr = X.detach().cpu().numpy() if hasattr(X, 'detach') else np.asarray(X)
                received.append(np.array(arr, dtype=float))
                if hasattr(X, 'detach'):
                    import torch
                    return torch.tensor(arr.sum(axis=1))
                return arr.sum(axis=1)
            w = SklearnWrapper(stub) if kind == 'sklearn' else TorchWrapper(stub)
            x = {k: base[k] for k in order}
            w(dict(x))
            n_cases += 1
            if not np.array_equal(received[0], np.array([[base[k] for k in order]])):
                bad(f'input-no-names/{kind}', f"{kind} wrapper without feature names, keys {list(order)}: received {received}")
        # without feature names, batch: every row is read in ITS OWN key order, exactly as a one-at-a-time call reads it
        for nrows in (2, 3):
            for orders in itertools.product(perms, repeat=nrows):
                received = []

                def stub(X, received=received):
                    arr = X.detach().cpu().numpy() if hasattr(X, 'detach') else np.asarray(X)
                    received.append(np.array(arr, dtype=float))
                    res = (arr * np.array([1.0, 10.0, 100.0])).sum(axis=1)
                    if hasattr(X, 'detach'):
                        import torch
                        return torch.tensor(res)
                    return res
                w = SklearnWrapper(stub) if kind == 'sklearn' else TorchWrapper(stub)
                xs = [{k: rows_base[i][k] for k in orders[i]} for i in range(nrows)]
                got = w([dict(x) for x in xs])
                n_cases += 1
                want_arr = np.array([[rows_base[i][k] for k in orders[i]] for i in range(nrows)])
                if len(received) != 1 or not np.array_equal(received[0], want_arr):
                    bad(f'batch-input-no-names/{kind}', f"{kind} wrapper without feature names, batch rows keyed in orders "
                                                        f"{[list(o) for o in orders]}: the prediction function received "
                                                        f"{received[0].tolist() if received else None}, expected every row in "
                                                        f"its own key order {want_arr.tolist()} (as a one-at-a-time call reads it)")
                single = [w(dict(x)) for x in xs]
                if not all(same_dict(g, s_) for g, s_ in zip(got, single)):
                    bad(f'batch-vs-single-no-names/{kind}', f"{kind} wrapper without feature names: batch result {got} differs "
                                                            f"from one-at-a-time {single} for rows {xs}")
            outcomes.add((kind, 'batch-orders-no-names', nrows))
        # call histories on ONE wrapper instance: the result of a call must not depend on earlier calls (value types of
        # earlier inputs: ints then fractions, short then long strings, bools, mixed)
        inputs = [{'a': 1, 'b': 2}, {'a': 0.5, 'b': 2.25}, {'a': True, 'b': False}, {'a': 10 ** 12, 'b': -3},
                  {'a': np.float32(1.5), 'b': np.int8(7)}, {'a': 1e-9, 'b': 2e9}, {'b': 4.5, 'a': 3}, {'a': 7, 'b': 0.125, 'c': 9.5}]
        for use_names in (False, True):
            for first in inputs:
                for second in inputs:
                    for third in (None, inputs[1]):
                        rec_hist, rec_fresh = [], []

                        def mk(received):
                            def stub(X):
                                arr = X.detach().cpu().numpy() if hasattr(X, 'detach') else np.asarray(X)
                                received.append(np.array(arr, dtype=float))
                                res = (arr * np.array([1.0, 10.0, 100.0])[:arr.shape[1]]).sum(axis=1)
                                if hasattr(X, 'detach'):
                                    import torch
                                    return torch.tensor(res)
                                return res
                            return stub
                        kw = {'feature_names': ['a', 'b']} if use_names else {}
                        cls = SklearnWrapper if kind == 'sklearn' else TorchWrapper
                        w_hist, calls = cls(mk(rec_hist), **kw), [first, second] + ([third] if third else [])
                        for x in calls:
                            got = w_hist(dict(x))
                        fresh = cls(mk(rec_fresh), **kw)(dict(calls[-1]))
                        n_cases += 1
                        tol = 1e-6 if kind == 'torch' else 0.0
                        if not (rec_hist[-1].shape == rec_fresh[-1].shape and np.allclose(rec_hist[-1], rec_fresh[-1], rtol=tol, atol=0)) \
                                or not close_dict(got, fresh, 1e-6 if kind == 'torch' else 1e-12):
                            bad(f'depends-on-earlier-calls/{kind}', f"{kind} wrapper ({'with' if use_names else 'without'} feature "
                                                                    f"names) called with {calls} in turn: the last call handed "
                                                                    f"{rec_hist[-1].tolist()} to the model and returned {got}; a fresh "
                                                                    f"wrapper hands over {rec_fresh[-1].tolist()} and returns {fresh}")
            outcomes.add((kind, 'call-histories', use_names))
    return n_cases, outcomes


# ------------------------------------------------------------------------------------- part 4: real models
def real_models_check():
    from ixai.utils.wrappers import SklearnWrapper, RiverWrapper, TorchWrapper
    from ixai.utils.validators.model import validate_model_function
    n_cases = 0
    outcomes = set()
    rng = np.random.RandomState(0)
    X = rng.normal(size=(40, 3))
    y_reg = X @ np.array([1.0, -2.0, 0.5]) + 0.1
    y_cls = (X[:, 0] + X[:, 1] > 0).astype(int) + (X[:, 2] > 0.5).astype(int)
    names = ['a', 'b', 'c']
    rows = [{n: float(X[i, j]) for j, n in enumerate(names)} for i in range(5)]
    from sklearn.linear_model import LinearRegression, LogisticRegression
    from sklearn.tree import DecisionTreeClassifier
    reg = LinearRegression().fit(X, y_reg)
    clf = LogisticRegression().fit(X, y_cls)
    tree = DecisionTreeClassifier(max_depth=3, random_state=0).fit(X, y_cls)
    for label, fn, direct in [('LinearRegression.predict', reg.predict, lambda A: reg.predict(A)),
                              ('LogisticRegression.predict', clf.predict, lambda A: clf.predict(A)),
                              ('LogisticRegression.predict_proba', clf.predict_proba, lambda A: clf.predict_proba(A)),
                              ('DecisionTreeClassifier.predict_proba', tree.predict_proba, lambda A: tree.predict_proba(A))]:
        for make in (lambda f: SklearnWrapper(f, feature_names=names), validate_model_function):
            w = make(fn)
            if not isinstance(w, SklearnWrapper):
                bad('dispatch-real', f"{label}: validate_model_function returned {type(w).__name__}")
            single = [w(dict(r)) for r in rows]
            batch = w([dict(r) for r in rows])
            want = [canon_row(direct(np.array([[r[n] for n in names]]))[0]) for r in rows]
            n_cases += 2
            outcomes.add(('real', label))
            if not all(close_dict(g, w_) for g, w_ in zip(single, want)):
                bad('real-single', f"{label}: wrapper(x) = {single[0]!r}, canonical dict of the model output is {want[0]!r}")
            if not all(close_dict(g, w_) for g, w_ in zip(batch, want)):
                bad('real-batch', f"{label}: wrapper(list) = {batch!r}, expected {want!r}")
    from river import linear_model as rlm, tree as rtree
    rreg = rlm.LinearRegression()
    rclf = rtree.HoeffdingTreeClassifier(grace_period=5)
    for i in range(40):
        xi = {n: float(X[i, j]) for j, n in enumerate(names)}
        rreg.learn_one(xi, float(y_reg[i]))
        rclf.learn_one(xi, 'pos' if y_cls[i] else 'neg')
    for label, fn in [('river LinearRegression.predict_one', rreg.predict_one),
                      ('river HoeffdingTreeClassifier.predict_proba_one', rclf.predict_proba_one),
                      ('river HoeffdingTreeClassifier.predict_one', rclf.predict_one)]:
        w = validate_model_function(fn)
        if not isinstance(w, RiverWrapper):
            bad('dispatch-real', f"{label}: validate_model_function returned {type(w).__name__}")
        seen = []
        for r in rows:
            raw = fn(dict(r))
            got = w(dict(r))
            if isinstance(raw, dict):
                want = raw
            elif isinstance(raw, str):
                if raw not in seen:
                    seen.append(raw)
                want = {s: (1.0 if s == raw else 0.0) for s in seen}
            else:
                want = {'output': float(raw)}
            n_cases += 1
            outcomes.add(('real', label))
            if not same_dict(got, want):
                bad('real-river', f"{label}: wrapper(x) = {got!r}, expected {want!r}")
        batch = w([dict(r) for r in rows])
        if len(batch) != len(rows):
            bad('real-river-batch', f"{label}: batch returned {len(batch)} rows")
    # an online model keeps learning between two evaluations of the SAME input (the usual explain-then-learn loop with a
    # repeated observation): the wrapper must report the model's CURRENT prediction
    rreg2 = rlm.LinearRegression()
    w2 = validate_model_function(rreg2.predict_one)
    for i in range(30):
        xi = {n: float(X[(i // 2) % 3, j]) for j, n in enumerate(names)}      # every observation delivered twice in a row
        for rep_ in range(2):
            got = w2(dict(xi))
            want = {'output': float(rreg2.predict_one(dict(xi)))}
            n_cases += 1
            if not same_dict(got, want):
                bad('stale-prediction', f"RiverWrapper around an online LinearRegression, evaluation {rep_ + 1} of observation "
                                        f"{i} ({xi}) after {i} learning steps: wrapper(x) = {got!r} but the model now predicts {want!r}")
            if rep_ == 0:
                same_again = w2(dict(xi))
                if not same_dict(same_again, want):
                    bad('stale-prediction', f"RiverWrapper: two evaluations of {xi} without learning in between differ: "
                                            f"{got!r} vs {same_again!r}")
        rreg2.learn_one(xi, float(y_reg[i % 3]) + i)
    outcomes.add(('real', 'river online model between evaluations'))
    import torch
    torch.manual_seed(0)
    for label, mod in [('torch Linear(3,1)', torch.nn.Linear(3, 1)), ('torch Linear(3,4)', torch.nn.Linear(3, 4))]:
        with warnings.catch_warnings():
            warnings.simplefilter('ignore')
            w = validate_model_function(mod)
        if not isinstance(w, TorchWrapper):
            bad('dispatch-real', f"{label}: validate_model_function returned {type(w).__name__}")
        w2 = TorchWrapper(mod, feature_names=names)
        for wr in (w, w2):
            single = [wr(dict(r)) for r in rows]
            batch = wr([dict(r) for r in rows])
            A = torch.tensor(np.array([[r[n] for n in names] for r in rows]), dtype=torch.float32)
            out = mod(A).detach().numpy()
            want = [canon_row(out[i]) for i in range(len(rows))]
            n_cases += 2
            outcomes.add(('real', label))
            for g, w_ in zip(single + batch, want + want):
                if set(g) != set(w_) or any(abs(float(g[k]) - float(w_[k])) > 1e-5 for k in w_):
                    bad('real-torch', f"{label}: wrapper output {g!r}, expected {w_!r}")
    return n_cases, outcomes


# ------------------------------------------------------------------------------------- part 5: dispatch
def dispatch_check():
    from ixai.utils.validators.model import validate_model_function
    from ixai.utils.wrappers import SklearnWrapper, RiverWrapper, TorchWrapper
    from ixai.utils.wrappers.base import Wrapper
    n_cases = 0
    outcomes = set()
    from sklearn.utils import all_estimators
    with warnings.catch_warnings():
        warnings.simplefilter('ignore')
        for name, cls in all_estimators():
            try:
                est = cls()
            except Exception:
                continue
            for meth in ('predict', 'predict_proba', 'decision_function'):
                try:
                    fn = getattr(est, meth, None)
                except Exception:
                    fn = None
                if fn is None or not inspect.ismethod(fn):
                    continue
                w = validate_model_function(fn)
                n_cases += 1
                outcomes.add(('sklearn', name, meth))
                if type(w) is not SklearnWrapper:
                    bad('dispatch-sklearn', f"validate_model_function(sklearn {name}().{meth}) returned "
                                            f"{type(w).__name__}, expected SklearnWrapper")
        import river
        import river.base
        seen = set()
        for mi in pkgutil.walk_packages(river.__path__, 'river.'):
            if any(s in mi.name for s in ('.test_', 'conftest', 'datasets', '.bandit.envs')):
                continue
            try:
                mod = importlib.import_module(mi.name)
            except Exception:
                continue
            for cname, cls in inspect.getmembers(mod, inspect.isclass):
                if cls in seen or not cls.__module__.startswith('river.') or inspect.isabstract(cls):
                    continue
                seen.add(cls)
                if not any(hasattr(cls, m) for m in ('predict_one', 'predict_proba_one')):
                    continue
                try:
                    obj = cls()
                except Exception:
                    try:
                        params = cls._unit_test_params()
                        obj = cls(**next(iter(params)))
                    except Exception:
                        continue
                for meth in ('predict_one', 'predict_proba_one'):
                    fn = getattr(obj, meth, None)
                    if fn is None or not inspect.ismethod(fn):
                        continue
                    w = validate_model_function(fn)
                    n_cases += 1
                    outcomes.add(('river', cls.__module__ + '.' + cname, meth))
                    if type(w) is not RiverWrapper:
                        bad('dispatch-river', f"validate_model_function({cls.__module__}.{cname}().{meth}) returned "
                                              f"{type(w).__name__}, expected RiverWrapper")
        from river import compat, linear_model
        for cname in ('River2SKLRegressor', 'River2SKLClassifier'):
            cls = getattr(compat, cname)
            inner = linear_model.LinearRegression() if 'Regressor' in cname else linear_model.LogisticRegression()
            obj = cls(inner)
            w = validate_model_function(obj.predict)
            n_cases += 1
            outcomes.add(('river2skl', cname))
            if type(w) is not SklearnWrapper:
                bad('dispatch-river2skl', f"validate_model_function(river.compat.{cname}(...).predict) (a sklearn "
                                          f"estimator) returned {type(w).__name__}, expected SklearnWrapper")
        import torch
        for mod in (torch.nn.Linear(2, 1), torch.nn.Sequential(torch.nn.Linear(2, 3), torch.nn.ReLU())):
            w = validate_model_function(mod)
            n_cases += 1
            outcomes.add(('torch', type(mod).__name__))
            if type(w) is not TorchWrapper:
                bad('dispatch-torch', f"validate_model_function({type(mod).__name__}) returned {type(w).__name__}")
        for inst in (SklearnWrapper(lambda X: X), RiverWrapper(lambda x: 0.0), TorchWrapper(lambda X: X)):
            w = validate_model_function(inst)
            n_cases += 1
            outcomes.add(('identity', type(inst).__name__))
            if w is not inst:
                bad('dispatch-identity', f"validate_model_function({type(inst).__name__} instance) did not return it unchanged")
    return n_cases, outcomes


PARTS = {'shapes-sklearn': lambda: shapes_check('sklearn'), 'shapes-torch': lambda: shapes_check('torch'),
         'river': river_check, 'key-orders': keyorder_check, 'real-models': real_models_check,
         'dispatch': dispatch_check}


def run_task(name):
    import torch
    torch.set_num_threads(1)
    try:
        with warnings.catch_warnings():
            warnings.simplefilter('ignore')
            n, outcomes = PARTS[name]()
        return dict(part=name, n=n, outcomes=outcomes, violations=[])
    except Exception as e:
        v = e if isinstance(e, Violation) else choice.library_exception(e, f'in part {name}')
        return dict(part=name, n=1, outcomes=set(), violations=[(v.key, v.what)])


def main(rep):
    results = choice.pmap(run_task, list(PARTS), chunksize=1)
    counts = {}
    for r in results:
        rep.add(evaluations=r['n'])
        for key, what in r['violations']:
            rep.violation(key, what, {'part': r['part']})
        rep.mark_nontrivial(r['outcomes'])
        counts[r['part']] = {'cases': r['n'], 'distinct': len(r['outcomes'])}
        if r['outcomes']:
            rep.sample({'part': r['part'], 'cases': r['n'], 'example': sorted(map(str, r['outcomes']))[:3]})
    disp = counts.get('dispatch', {}).get('cases', 0)
    if not any(r['violations'] for r in results) and disp < 200:
        raise choice.HarnessError(f"only {disp} dispatch cases discovered")
    rep.note(parts=counts)
    rep.assume("installed versions only (NumPy %s, sklearn / river / torch as installed)" % np.__version__,
               "vector entries are compared with ==; the 'output' entry must be a Python float")
    return rep.finish(
        rule="exhaustive finite product of output shapes x dtypes x batch sizes x wrappers, all key orders of all rows, "
             "every sklearn estimator / river model class with a predict method; non-trivial = distinct cases "
             "(shape/dtype/kind, name-order, estimator.method)")


def replay(data):
    r = run_task(data['replay']['part'])
    if r['violations']:
        print(f"VIOLATION property={PID} replay=(reproduced)\n  {r['violations'][0][1]}")
        return 1
    print("replay: no violation on the current tree")
    return 0
