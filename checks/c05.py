"""C05 – Batch / Interval SAGE: efficiency over the explained data; the interval schedule.

Part A1: BatchSage.explain_many / explain_many_original on every data set (words over the observation
alphabet) x d x n_inner x draws (full for small cases, deviation-bounded around two base executions
otherwise): sum of values == mean_i[loss(y_i, mean prediction) - loss(y_i, f(x_i))] and every value ==
average over observations of that feature's chain contribution (read off the imputer calls; in original
mode off the loss / model-call log).
Part A2: sequences of BatchSage.explain_one calls (both modes) on append-only and non-append-only
storages: the same oracle against the storage content of that call.
Part B (explicit-state BFS): IntervalSage for (interval_length, storage_length) in {1,2,3}^2 over call
letters (x, force, update_storage): recompute iff ordinal % L == 0 or forced, over exactly the last S
stored arrivals (the batch model call's argument), otherwise previous values unchanged and no model call.
"""
import itertools
from fractions import Fraction as F

from ixverif import choice, statespace
from ixverif.canon import canon
from ixverif.choice import Violation
from ixverif.refmodels import dict_eq, mean_prediction
from ixverif.spies import EventLog, Loss, Model, make_imputer_spy

LEVEL = 'model_checking'
PID = 'C05'
EPS = F(2.220446049250313e-16)


def names_for(d):
    return ['a', 'b', 'c'][:d]


def letters_for(names, model_kind):
    from ixverif.explharness import alphabet
    return alphabet(names, model_kind, 3)


def tol_for(vals, N, d):
    return 64 * EPS * max([1] + [abs(F(v)) for v in vals]) * max(1, N) * (d + 2)


def check_result(cfg, where, model, loss, names, data, result, events, original, strict_batch=False):
    """Oracle for one recomputation: result vs the explained data `data` (list of (x, y))."""
    def bad(key, what):
        raise Violation(f"{PID}/{key}", f"{where}: {what}", {'cfg': cfg})
    N, d = len(data), len(names)
    if len(result) != d or any(n not in result for n in names):
        bad('keys', f"result keys {list(result)}")
    preds = [model.f(x) for x, _ in data]
    mp = mean_prediction(preds)
    want_sum = sum(loss.f(y, mp) - loss.f(y, p) for (x, y), p in zip(data, preds)) / N
    got_sum = sum(F(v) for v in result.values())
    losses = [e for e in events if e[0] == 'loss']
    tol = tol_for([e[3] for e in losses] + [want_sum], N, d)
    if abs(got_sum - want_sum) > tol:
        bad('efficiency' + ('-original' if original else ''),
            f"values {fmt(result)} sum to {float(got_sum)!r} but the mean over the {N} explained "
            f"observations of loss(mean prediction) - loss(model prediction) is {float(want_sum)!r}")
    # per-feature: average of the chain contributions
    if len(losses) != N * (d + 1):
        bad('loss-calls', f"{len(losses)} loss evaluations for {N} observations and {d} features")
    batch = [e for e in events if e[0] == 'model-batch']
    if strict_batch and (len(batch) != 1 or [dict(r) for r in batch[0][1]] != [dict(x) for x, _ in data]):
        bad('baseline-data', f"the baseline prediction must be computed over exactly the explained observations "
                             f"{[x for x, _ in data]}, the batch model call received "
                             f"{[b[1] for b in batch]}")
    per_row = []
    imputes = [e for e in events if e[0] == 'impute']
    # split events per explained row: each row = 1 loss (baseline) + d x (model calls ..., loss)
    idx = [i for i, e in enumerate(events) if e[0] == 'loss']
    for i in range(N):
        li = idx[i * (d + 1):(i + 1) * (d + 1)]
        vals = [events[j][3] for j in li]
        diffs = [vals[s] - vals[s + 1] for s in range(d)]
        x_i = data[i][0]
        if not original and imputes:
            imps = sorted(imputes[i * d:(i + 1) * d], key=lambda e: -len(e[1]))
            if len(imps) != d:
                bad('chain-length', f"observation {i + 1}: {len(imps)} imputer calls")
            remaining = set(names)
            order = []
            for (_, subset, xc, n_s, prs, inputs) in imps:
                gone = [n for n in remaining if n not in subset]
                if len(gone) != 1 or not set(subset) <= remaining:
                    bad('coalition', f"observation {i + 1}: imputer asked for {sorted(subset)} after {sorted(remaining)}")
                remaining.discard(gone[0])
                order.append(gone[0])
            cands = [tuple(order)]
        else:
            # candidates for the feature order: the revealed features must carry x_i's values in every input
            steps = []
            for s in range(d):
                seg = events[li[s] + 1:li[s + 1]]
                steps.append([e[1] for e in seg if e[0] == 'model'])
            cands = []
            for perm in itertools.permutations(names):
                ok = True
                for s in range(d):
                    for inp in steps[s]:
                        if any(not (inp[f] == x_i[f]) for f in perm[:s + 1]):
                            ok = False
                    if not steps[s]:
                        ok = False
                if ok:
                    cands.append(perm)
            if not cands:
                bad('original-chain', f"observation {i + 1}: no feature order is consistent with the model inputs "
                                      f"(revealed features must keep the explained values)")
        per_row.append((diffs, cands))
    ok = False
    for assign in itertools.product(*[c for _, c in per_row]):
        tot = {n: 0 for n in names}
        for (diffs, _), perm in zip(per_row, assign):
            for s, f in enumerate(perm):
                tot[f] = tot[f] + diffs[s]
        if all(abs(F(result[n]) - F(tot[n]) / N) <= tol for n in names):
            ok = True
            break
    if not ok:
        bad('per-feature' + ('-original' if original else ''),
            f"values {fmt(result)} are not the averages over the {N} observations of the features' chain "
            f"contributions {[(list(map(float, dfs)), [list(c) for c in cs][:2]) for dfs, cs in per_row]}")


def fmt(d):
    return '{' + ', '.join(f"{k!r}: {float(v)!r}" for k, v in d.items()) + '}'


def build_batch(cfg, storage=None):
    from ixai.explainer import BatchSage
    from ixai.imputer import MarginalImputer
    from ixai.storage import BatchStorage
    names = names_for(cfg['d'])
    log = EventLog()
    model = Model(names, cfg['model'], None, log)
    loss = Loss(cfg['model'], 'poly', log)
    if storage is None:
        storage = BatchStorage(store_targets=True)
    imp = make_imputer_spy(MarginalImputer(model, cfg.get('strategy', 'joint'), storage), log)
    ex = BatchSage(model, list(names), loss, n_inner_samples=cfg['n'], storage=storage, imputer=imp)
    return names, log, model, loss, storage, ex


def a1_driver(cfg):
    def driver(run):
        names, log, model, loss, storage, ex = build_batch(cfg)
        letters = letters_for(names, cfg['model'])
        data = []
        for t in range(cfg['N']):
            x, y = letters[run.choose(len(letters), 'obs', None, 0)]
            data.append((dict(x), y))
            ex.update_storage(dict(x), y)
        mark = log.mark()
        xs, ys = [dict(x) for x, _ in data], [y for _, y in data]
        if cfg['original']:
            res = ex.explain_many_original(xs, ys, verbose=False)
        else:
            res = ex.explain_many(xs, ys, verbose=False)
        where = f"BatchSage.explain_many{'_original' if cfg['original'] else ''}[{desc(cfg)}] on {data}"
        check_result(cfg, where, model, loss, names, data, res, log.since(mark), cfg['original'])
        if not dict_eq(dict(res), ex.importance_values):
            raise Violation(f"{PID}/return-value", f"{where}: returned {res} but importance_values={ex.importance_values}", {})
        return tuple(sorted((k, float(v)) for k, v in res.items()))
    return driver


def a2_driver(cfg):
    def driver(run):
        import ixai.storage as s
        st = {'Batch': lambda: s.BatchStorage(store_targets=True),
              'Interval': lambda: s.IntervalStorage(size=2, store_targets=True),
              'Geometric': lambda: s.GeometricReservoirStorage(size=2, store_targets=True, constant_probability=1.0)}[
            cfg['storage']]()
        names, log, model, loss, storage, ex = build_batch(cfg, st)
        letters = letters_for(names, cfg['model'])
        outs = []
        for t in range(cfg['T']):
            x, y = letters[run.choose(len(letters), 'obs', None, 0)]
            orig = cfg['original'] if cfg['original'] != 'mixed' else bool(run.choose(2, 'original', None, 0))
            mark = log.mark()
            res = ex.explain_one(dict(x), y, original_sage=orig, verbose=False)
            xs, ys = storage.get_data()
            data = [(dict(a), b) for a, b in zip(list(xs), list(ys))]
            where = f"BatchSage.explain_one[{desc(cfg)}] call {t + 1} (original_sage={orig}), storage holds {data}"
            check_result(cfg, where, model, loss, names, data, res, log.since(mark), orig)
            if not dict_eq(dict(res), ex.importance_values):
                raise Violation(f"{PID}/return-value", f"{where}: returned {res}, importance_values={ex.importance_values}", {})
            outs.append(tuple(sorted((k, float(v)) for k, v in res.items())))
        return tuple(outs)
    return driver


def desc(cfg):
    return ', '.join(f"{k}={v}" for k, v in cfg.items())


def a3_driver(cfg):
    """Two BatchSage explainers built from the required arguments only (default storage) in one process: the second one
    must explain its OWN observations only."""
    def driver(run):
        from ixai.explainer import BatchSage
        names = names_for(cfg['d'])
        letters = letters_for(names, 'scalar')
        outs = []
        for inst in range(2):
            log = EventLog()
            model = Model(names, 'scalar', None, log)
            loss = Loss('scalar', 'poly', log)
            ex = BatchSage(model, list(names), loss, n_inner_samples=cfg['n'])
            data = []
            for t in range(2):
                x, y = letters[(run.choose(len(letters), 'obs', None, 0) + inst) % len(letters)]
                x = {k: v + 100 * inst for k, v in x.items()}
                mark = log.mark()
                res = ex.explain_one(dict(x), y, original_sage=cfg['original'], verbose=False)
                data.append((x, y))
                where = f"BatchSage #{inst + 1} (default storage, built after {inst} other BatchSage) call {t + 1} on {data}"
                check_result(cfg, where, model, loss, names, list(data), res, log.since(mark), cfg['original'])
            outs.append(tuple(sorted((k, float(v)) for k, v in res.items())))
        return tuple(outs)
    return driver


# ------------------------------------------------------------------------------------------ part B
class IntervalState:
    def __init__(self, L, S):
        from ixai.explainer import IntervalSage
        self.L, self.S = L, S
        self.names = names_for(2)
        self.log = EventLog()
        self.model = Model(self.names, 'scalar', None, self.log)
        self.loss = Loss('scalar', 'sq', self.log)
        self.ex = IntervalSage(self.model, list(self.names), self.loss, n_inner_samples=1, interval_length=L,
                               storage_length=S)
        self.stored = []          # reference: all stored arrivals
        self.ordinal = 0
        self.prev = dict(self.ex.importance_values)
        self.letters = letters_for(self.names, 'scalar')[:2]


def b_letters(state):
    out = []
    for xi in range(2):
        for force in (False, True):
            for upd in (True, False):
                if not upd and not state.stored:
                    continue          # explaining an empty window is outside the property
                out.append((xi, force, upd))
    return out


def b_step(state, letter):
    xi, force, upd = letter
    x, y = state.letters[xi]
    ex = state.ex
    state.log.events.clear()
    where = (f"IntervalSage(interval_length={state.L}, storage_length={state.S}) call {state.ordinal + 1} "
             f"(force_explain={force}, update_storage={upd}) after {state.ordinal} calls")

    def bad(key, what):
        raise Violation(f"{PID}/schedule/{key}", f"{where}: {what}", {})
    kw = {}
    if force:
        kw['force_explain'] = True
    if not upd:
        kw['update_storage'] = False
    ret = ex.explain_one(dict(x), y, verbose=False, **kw)
    if upd:
        state.stored.append((dict(x), y))
    state.ordinal += 1
    if ex.seen_samples != state.ordinal:
        bad('seen-samples', f"seen_samples={ex.seen_samples}, expected {state.ordinal}")
    ev = list(state.log.events)
    n_model = sum(1 for e in ev if e[0] in ('model', 'model-batch'))
    recompute = force or state.ordinal % state.L == 0
    if not recompute:
        if n_model:
            bad('model-evaluated', f"no recomputation is due (ordinal {state.ordinal} is not a multiple of "
                                   f"{state.L}) but the model was evaluated {n_model} times")
        if not dict_eq(dict(ret), state.prev) or any(type(ret[k]) is not type(state.prev[k]) for k in ret):
            bad('values-changed', f"returned {ret} instead of the previous values {state.prev}")
        out = 'skip'
    else:
        window = state.stored[-state.S:]
        batch = [e for e in ev if e[0] == 'model-batch']
        if not n_model:
            bad('not-recomputed', f"a recomputation is due (ordinal {state.ordinal}, interval {state.L}, forced={force}) "
                                  f"but the model was not evaluated")
        if len(batch) == 1 and [dict(r) for r in batch[0][1]] != [dict(a) for a, _ in window]:
            bad('window', f"recomputed over {[r for r in batch[0][1]]}, expected the last {state.S} stored "
                          f"observations {[a for a, _ in window]}")
        check_result({'L': state.L, 'S': state.S}, where, state.model, state.loss, state.names, window, ret, ev, False)
        state.prev = dict(ret)
        out = ('recompute', len(window))
    if not dict_eq(dict(ret), ex.importance_values):
        bad('return-value', f"returned {ret} but importance_values={ex.importance_values}")
    return out


def b_canon(state):
    return (state.ordinal, tuple((tuple(sorted(a.items())), b) for a, b in state.stored[-state.S:]),
            canon(state.ex.importance_values), canon({k: v for k, v in vars(state.ex).items()
                                                      if k not in ('_model_function', '_loss_function', '_imputer',
                                                                   '_storage')}),
            canon(list(state.ex._storage.get_data()[0])) if hasattr(state.ex, '_storage') else None)


# ------------------------------------------------------------------------------------------ tasks
def plan(tier):
    deep = tier == 'thorough'
    tasks = []
    for original in (False, True):
        for d in (2, 3):
            for n in (1, 2):
                for N in (1, 2, 3):
                    for model in ('scalar', 'multi'):
                        if not deep and model == 'multi' and (d, n) != (2, 2):
                            continue
                        full = (d == 2 and N <= 2 and n == 1) or N == 1
                        for strategy in ('joint', 'product') if (not original and (deep or d == 2)) else ('joint',):
                            tasks.append(('A1', dict(original=original, d=d, n=n, N=N, model=model, strategy=strategy),
                                          None if full else (2 if deep else 1)))
    for storage in ('Batch', 'Interval', 'Geometric'):
        for original in (False, True, 'mixed'):
            for n in (1, 2):
                tasks.append(('A2', dict(original=original, d=2, n=n, T=4 if deep else 3, storage=storage,
                                         model='scalar'), 1))
    for original in (False, True):
        tasks.append(('A3', dict(original=original, d=2, n=1), 1))
    for L in (1, 2, 3):
        for S in (1, 2, 3):
            tasks.append(('B', dict(L=L, S=S, depth=2 * L + (3 if deep else 2)), None))
    return tasks


def run_task(task):
    part, cfg, bound = task
    if part == 'B':
        out = {}
        viol = []
        for dl in (False, True):
            res = statespace.bfs(lambda: IntervalState(cfg['L'], cfg['S']), b_letters, b_step, b_canon, cfg['depth'],
                                 default_last=dl)
            for k, w, hist in res.violations:
                viol.append((k, w, {}, (list(hist), dl)))
            out[dl] = res
            if viol:
                break
        r0 = out[False]
        return dict(task=task, executions=sum(r.transitions for r in out.values()), violations=viol,
                    states=sum(r.states for r in out.values()), transitions=sum(r.transitions for r in out.values()),
                    outcomes={(cfg['L'], cfg['S'], o) for r in out.values() for o in r.outcomes},
                    depth=r0.max_depth, truncated=any(r.truncated for r in out.values()), default_last=False)
    outcomes = set()

    def on_leaf(run, res):
        outcomes.add(res)
    drv = a1_driver(cfg) if part == 'A1' else (a3_driver(cfg) if part == 'A3' else a2_driver(cfg))
    st = choice.explore(drv, on_leaf=on_leaf, bound=bound)
    dl = False
    if bound is not None and not st.violations:
        st2 = choice.explore(drv, on_leaf=on_leaf, bound=bound, default_last=True)
        st.merge(st2)
        dl = bool(st2.violations)
    return dict(task=task, executions=st.executions, violations=st.violations, states=len(outcomes),
                transitions=st.executions, outcomes={(part, desc(cfg), o) for o in list(outcomes)[:200]},
                default_last=dl, truncated=False, depth=None)


def main(rep):
    tasks = plan(rep.tier)
    results = choice.pmap(run_task, tasks, chunksize=1)
    for r in results:
        part, cfg, bound = r['task']
        rep.add(evaluations=r['executions'], traces_validated_against_impl=r['executions'], states=r['states'],
                transitions=r['transitions'])
        for key, what, detail, prefix in r['violations']:
            rep.violation(key, what, {'task': [part, cfg, bound], 'prefix': prefix if part == 'B' else list(prefix),
                                      'default_last': r['default_last']})
        if r['truncated']:
            rep.exhaustive = False
        rep.mark_nontrivial(r['outcomes'])
        if part == 'B' and not r['violations']:
            kinds = {o[2] if isinstance(o[2], str) else o[2][0] for o in r['outcomes']}
            if cfg['L'] > 1 and kinds != {'skip', 'recompute'}:
                raise choice.HarnessError(f"non-vacuity: schedule {cfg} saw only {kinds}")
            if len(rep.samples) < 3:
                rep.sample({'part': 'B', 'interval_length': cfg['L'], 'storage_length': cfg['S'], 'bfs_depth': cfg['depth'],
                            'states': r['states'], 'transitions': r['transitions']})
        elif part != 'B' and len(rep.samples) < 6 and cfg.get('N', 0) == 3 or (part == 'A2' and len(rep.samples) < 6):
            rep.sample({'part': part, 'config': cfg, 'deviation_bound': bound, 'executions': r['executions'],
                        'distinct_results': r['states']})
    rep.note(tasks=len(tasks))
    rep.assume("BatchSage/IntervalSage accumulate in floats (initial 0.): identities within 64 eps N (d+2) max|loss|",
               "original mode: the explained feature names cover every feature the model reads",
               "explaining an empty window (first call with update_storage=False) is outside the property",
               "Part B uses the default answers (and, in a second pass, the last answers) of the library's draws")
    return rep.finish(
        rule="A1/A2: data sets / call sequences x draws (full or deviation-bounded around two base executions); "
             "B: explicit-state BFS over (x, force, update_storage) letters with canonical-state de-duplication; "
             "non-trivial = distinct observed result vectors / schedule outcomes")


def replay(data):
    r = data['replay']
    part, cfg, bound = r['task']
    if part == 'B':
        hist, dl = r['prefix']
        v = statespace.replay(lambda: IntervalState(cfg['L'], cfg['S']), b_step, [tuple(h) for h in hist], default_last=dl)
        v2 = statespace.replay(lambda: IntervalState(cfg['L'], cfg['S']), b_step, [tuple(h) for h in hist], default_last=dl)
        if (v is None) != (v2 is None):
            print("HARNESS-ERROR: replay not deterministic")
            return 2
    else:
        drv = a1_driver(cfg) if part == 'A1' else (a3_driver(cfg) if part == 'A3' else a2_driver(cfg))
        run, res, v = choice.execute(drv, tuple(r['prefix']), default_last=bool(r.get('default_last')))
    if v:
        print(f"VIOLATION property={PID} replay=(reproduced)\n  {v.what}")
        return 1
    print("replay: no violation on the current tree")
    return 0
